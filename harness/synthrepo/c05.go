package synthrepo

// Additions for the C05 harness: raw tar segments as gzip members, so that a
// served .apk can be assembled from arbitrary members (a control member whose
// first entry is named .SIGN.*, data split over several members, ...).

// Segment returns one gzip member holding the tar entries; withEOA adds the
// end-of-archive marker, pax records per-file checksums / xattrs as PAX records.
func Segment(entries []File, withEOA bool, pax bool) ([]byte, error) {
	return tarSegment(entries, withEOA, pax)
}

// Pkginfo renders the .PKGINFO text of p with the given datahash value.
func (p *Pkg) Pkginfo(datahash string, size uint64) []byte { return p.pkginfo(datahash, size) }
