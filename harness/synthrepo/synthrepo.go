// Package synthrepo builds synthetic signed APK repositories: .apk files
// (signature / control / data gzip members, .PKGINFO with datahash, PAX
// APK-TOOLS.checksum.SHA1 records, xattrs, hard links, symlinks, devices),
// signed APKINDEX.tar.gz archives, RSA keys, and serves them from a directory
// or over HTTP. It deliberately uses none of apko's own writers, so that a
// change to apko's index template or tar code does not change what the
// synthetic repository contains.
package synthrepo

import (
	"archive/tar"
	"bytes"
	"compress/gzip"
	"crypto"
	"crypto/rand"
	"crypto/rsa"
	"crypto/sha1" //nolint:gosec
	"crypto/sha256"
	"crypto/x509"
	"encoding/base64"
	"encoding/hex"
	"encoding/pem"
	"fmt"
	"net/http"
	"net/http/httptest"
	"os"
	"path/filepath"
	"sort"
	"strings"
	"time"
)

// File is one entry of a package's data section.
type File struct {
	Name     string // no leading slash; directories may end in "/"
	Type     byte   // tar.TypeReg (default when 0), TypeDir, TypeSymlink, TypeLink, TypeChar, ...
	Mode     int64  // permission + setuid/setgid/sticky bits in tar encoding (0o4000, 0o2000, 0o1000)
	UID, GID int
	Uname    string
	Gname    string
	Content  []byte
	Linkname string
	Devmajor int64
	Devminor int64
	Xattrs   map[string]string // name without the SCHILY.xattr. prefix
	ModTime  time.Time
	// checksum control
	NoChecksum  bool   // omit the APK-TOOLS.checksum.SHA1 record
	BadChecksum bool   // record a checksum that does not match Content
	Q1Checksum  bool   // record it in the non-standard "Q1"+base64 form
	RawChecksum string // if non-empty, use verbatim
}

// Pkg describes a synthetic package.
type Pkg struct {
	Name, Version, Arch, Origin string
	Description, URL, License   string
	Maintainer, Commit          string
	Deps, Provides, Replaces    []string
	InstallIf                   []string
	ProviderPriority            uint64
	BuildTime                   int64
	Triggers                    []string
	Scripts                     map[string][]byte // e.g. ".post-install"
	ExtraControl                []File            // extra files in the control section
	Files                       []File
	NoDatahash                  bool   // omit datahash from .PKGINFO
	WrongDatahash               bool   // record a datahash that does not match
	Unsigned                    bool   // no signature member
	PkginfoExtra                string // extra raw lines appended to .PKGINFO
}

// Built is the result of building a package.
type Built struct {
	Pkg           *Pkg
	Bytes         []byte // whole .apk
	Sig           []byte // gzip member (may be nil)
	Control       []byte // gzip member
	Data          []byte // gzip member
	ControlSHA1   []byte
	DataSHA256    []byte
	InstalledSize uint64
}

func (b *Built) Checksum() string { return "Q1" + base64.StdEncoding.EncodeToString(b.ControlSHA1) }
func (b *Built) Filename() string { return b.Pkg.Name + "-" + b.Pkg.Version + ".apk" }

// Key is an RSA signing key with the file name its public half is stored under.
type Key struct {
	Name string // e.g. "test@example.com-1234.rsa.pub"
	Priv *rsa.PrivateKey
	Pub  []byte // PEM, PKIX
}

// fixed reader so that generated keys are reproducible per seed
type detRand struct{ s uint64 }

func (d *detRand) Read(p []byte) (int, error) {
	for i := range p {
		d.s += 0x9E3779B97F4A7C15
		z := d.s
		z = (z ^ (z >> 30)) * 0xBF58476D1CE4E5B9
		z = (z ^ (z >> 27)) * 0x94D049BB133111EB
		p[i] = byte(z ^ (z >> 31))
	}
	return len(p), nil
}

// NewKey generates an RSA-2048 key. Key generation in crypto/rsa is not
// deterministic even with a fixed reader, which is fine: nothing compared
// across runs depends on key bytes.
func NewKey(name string) (*Key, error) {
	priv, err := rsa.GenerateKey(rand.Reader, 2048)
	if err != nil {
		return nil, err
	}
	der, err := x509.MarshalPKIXPublicKey(&priv.PublicKey)
	if err != nil {
		return nil, err
	}
	return &Key{Name: name, Priv: priv, Pub: pem.EncodeToMemory(&pem.Block{Type: "PUBLIC KEY", Bytes: der})}, nil
}

// tarSegment writes entries and returns the gzip member. withEOA adds the
// end-of-archive marker (data sections have it, signature/control do not).
func tarSegment(entries []File, withEOA bool, pax bool) ([]byte, error) {
	var raw bytes.Buffer
	tw := tar.NewWriter(&raw)
	for _, f := range entries {
		h := &tar.Header{Name: f.Name, Mode: f.Mode, Uid: f.UID, Gid: f.GID, Uname: f.Uname, Gname: f.Gname,
			ModTime: f.ModTime, Linkname: f.Linkname, Devmajor: f.Devmajor, Devminor: f.Devminor}
		if h.ModTime.IsZero() {
			h.ModTime = time.Unix(0, 0)
		}
		h.Typeflag = f.Type
		if h.Typeflag == 0 {
			h.Typeflag = tar.TypeReg
		}
		if h.Typeflag == tar.TypeDir && !strings.HasSuffix(h.Name, "/") {
			h.Name += "/"
		}
		if h.Typeflag == tar.TypeReg {
			h.Size = int64(len(f.Content))
		}
		if pax {
			h.Format = tar.FormatPAX
			h.PAXRecords = map[string]string{}
			for k, v := range f.Xattrs {
				h.PAXRecords["SCHILY.xattr."+k] = v
			}
			if (h.Typeflag == tar.TypeReg || h.Typeflag == tar.TypeSymlink) && !f.NoChecksum {
				sum := sha1.Sum(f.Content) //nolint:gosec
				if h.Typeflag == tar.TypeSymlink {
					sum = sha1.Sum([]byte(f.Linkname)) //nolint:gosec // apk-tools hashes the link target
				}
				if f.BadChecksum {
					sum[0] ^= 0xff
				}
				v := hex.EncodeToString(sum[:])
				if f.Q1Checksum {
					v = "Q1" + base64.StdEncoding.EncodeToString(sum[:])
				}
				if f.RawChecksum != "" {
					v = f.RawChecksum
				}
				h.PAXRecords["APK-TOOLS.checksum.SHA1"] = v
			}
			if len(h.PAXRecords) == 0 {
				h.PAXRecords = nil
			}
		}
		if err := tw.WriteHeader(h); err != nil {
			return nil, fmt.Errorf("tar header %q: %w", f.Name, err)
		}
		if h.Typeflag == tar.TypeReg {
			if _, err := tw.Write(f.Content); err != nil {
				return nil, err
			}
		}
	}
	if withEOA {
		if err := tw.Close(); err != nil {
			return nil, err
		}
	} else if err := tw.Flush(); err != nil {
		return nil, err
	}
	return Gz(raw.Bytes())
}

// Gz compresses b into one gzip member with a zeroed header.
func Gz(b []byte) ([]byte, error) {
	var out bytes.Buffer
	zw, _ := gzip.NewWriterLevel(&out, gzip.BestSpeed)
	if _, err := zw.Write(b); err != nil {
		return nil, err
	}
	if err := zw.Close(); err != nil {
		return nil, err
	}
	return out.Bytes(), nil
}

func (p *Pkg) pkginfo(datahash string, size uint64) []byte {
	var b strings.Builder
	fmt.Fprintf(&b, "# Generated by synthrepo\npkgname = %s\npkgver = %s\narch = %s\nsize = %d\n", p.Name, p.Version, p.Arch, size)
	if p.Origin != "" {
		fmt.Fprintf(&b, "origin = %s\n", p.Origin)
	}
	fmt.Fprintf(&b, "pkgdesc = %s\nurl = %s\ncommit = %s\nbuilddate = %d\nlicense = %s\n", p.Description, p.URL, p.Commit, p.BuildTime, p.License)
	if p.Maintainer != "" {
		fmt.Fprintf(&b, "maintainer = %s\n", p.Maintainer)
	}
	for _, d := range p.Deps {
		fmt.Fprintf(&b, "depend = %s\n", d)
	}
	for _, d := range p.Provides {
		fmt.Fprintf(&b, "provides = %s\n", d)
	}
	for _, d := range p.Replaces {
		fmt.Fprintf(&b, "replaces = %s\n", d)
	}
	if len(p.InstallIf) > 0 {
		fmt.Fprintf(&b, "install_if = %s\n", strings.Join(p.InstallIf, " "))
	}
	if p.ProviderPriority != 0 {
		fmt.Fprintf(&b, "provider_priority = %d\n", p.ProviderPriority)
	}
	if len(p.Triggers) > 0 {
		fmt.Fprintf(&b, "triggers = %s\n", strings.Join(p.Triggers, " "))
	}
	if !p.NoDatahash {
		fmt.Fprintf(&b, "datahash = %s\n", datahash)
	}
	b.WriteString(p.PkginfoExtra)
	return []byte(b.String())
}

// Build assembles the .apk. key may be nil (then the package is unsigned).
func (p *Pkg) Build(key *Key) (*Built, error) {
	if p.Arch == "" {
		p.Arch = "x86_64"
	}
	data, err := tarSegment(p.Files, true, true)
	if err != nil {
		return nil, err
	}
	dh := sha256.Sum256(data)
	if p.WrongDatahash {
		dh[0] ^= 0xff
	}
	var isize uint64
	for _, f := range p.Files {
		isize += uint64(len(f.Content))
	}
	ctl := []File{{Name: ".PKGINFO", Mode: 0o644, Content: p.pkginfo(hex.EncodeToString(dh[:]), isize)}}
	var names []string
	for n := range p.Scripts {
		names = append(names, n)
	}
	sort.Strings(names)
	for _, n := range names {
		ctl = append(ctl, File{Name: n, Mode: 0o755, Content: p.Scripts[n]})
	}
	ctl = append(ctl, p.ExtraControl...)
	control, err := tarSegment(ctl, false, false)
	if err != nil {
		return nil, err
	}
	csum := sha1.Sum(control) //nolint:gosec
	b := &Built{Pkg: p, Control: control, Data: data, ControlSHA1: csum[:], InstalledSize: isize}
	realdh := sha256.Sum256(data)
	b.DataSHA256 = realdh[:]
	if key != nil && !p.Unsigned {
		sig, err := rsa.SignPKCS1v15(nil, key.Priv, crypto.SHA1, csum[:])
		if err != nil {
			return nil, err
		}
		b.Sig, err = tarSegment([]File{{Name: ".SIGN.RSA." + key.Name, Mode: 0o644, Content: sig}}, false, false)
		if err != nil {
			return nil, err
		}
	}
	b.Bytes = append(append(append([]byte{}, b.Sig...), b.Control...), b.Data...)
	return b, nil
}

// IndexEntry renders one APKINDEX stanza for a built package.
func IndexEntry(b *Built) string {
	p := b.Pkg
	var s strings.Builder
	fmt.Fprintf(&s, "C:%s\nP:%s\nV:%s\nA:%s\nS:%d\nI:%d\nT:%s\nU:%s\nL:%s\n", b.Checksum(), p.Name, p.Version, p.Arch, len(b.Bytes), b.InstalledSize, p.Description, p.URL, p.License)
	if p.Origin != "" {
		fmt.Fprintf(&s, "o:%s\n", p.Origin)
	}
	if p.Maintainer != "" {
		fmt.Fprintf(&s, "m:%s\n", p.Maintainer)
	}
	fmt.Fprintf(&s, "t:%d\n", p.BuildTime)
	if p.Commit != "" {
		fmt.Fprintf(&s, "c:%s\n", p.Commit)
	}
	if len(p.Deps) > 0 {
		fmt.Fprintf(&s, "D:%s\n", strings.Join(p.Deps, " "))
	}
	if len(p.Provides) > 0 {
		fmt.Fprintf(&s, "p:%s\n", strings.Join(p.Provides, " "))
	}
	if len(p.InstallIf) > 0 {
		fmt.Fprintf(&s, "i:%s\n", strings.Join(p.InstallIf, " "))
	}
	if p.ProviderPriority != 0 {
		fmt.Fprintf(&s, "k:%d\n", p.ProviderPriority)
	}
	s.WriteString("\n")
	return s.String()
}

// IndexArchive builds APKINDEX.tar.gz. With key == nil it is unsigned (one
// gzip member). sigAlg is "RSA" (SHA-1) or "RSA256".
func IndexArchive(text string, key *Key, sigAlg string) (whole, signedPart []byte, err error) {
	idx, err := tarSegment([]File{
		{Name: "DESCRIPTION", Mode: 0o644, Content: []byte("synthrepo")},
		{Name: "APKINDEX", Mode: 0o644, Content: []byte(text)},
	}, true, false)
	if err != nil {
		return nil, nil, err
	}
	if key == nil {
		return idx, idx, nil
	}
	sigSeg, err := SignatureSegment(idx, key, sigAlg)
	if err != nil {
		return nil, nil, err
	}
	return append(append([]byte{}, sigSeg...), idx...), idx, nil
}

// SignatureSegment returns the gzip member carrying key's signature over signed.
func SignatureSegment(signed []byte, key *Key, sigAlg string) ([]byte, error) {
	if sigAlg == "" {
		sigAlg = "RSA256"
	}
	var sig []byte
	var err error
	switch sigAlg {
	case "RSA":
		d := sha1.Sum(signed) //nolint:gosec
		sig, err = rsa.SignPKCS1v15(nil, key.Priv, crypto.SHA1, d[:])
	default:
		d := sha256.Sum256(signed)
		sig, err = rsa.SignPKCS1v15(nil, key.Priv, crypto.SHA256, d[:])
	}
	if err != nil {
		return nil, err
	}
	return tarSegment([]File{{Name: ".SIGN." + sigAlg + "." + key.Name, Mode: 0o644, Content: sig}}, false, false)
}

// Repo is a repository on disk: <Dir>/<arch>/{APKINDEX.tar.gz, *.apk}; keys in <Dir>/keys.
type Repo struct {
	Dir   string
	Key   *Key
	Built map[string][]*Built // by arch
}

// Write builds every package, writes the files and the signed index for each arch.
func Write(dir string, key *Key, pkgs []*Pkg) (*Repo, error) {
	r := &Repo{Dir: dir, Key: key, Built: map[string][]*Built{}}
	for _, p := range pkgs {
		b, err := p.Build(key)
		if err != nil {
			return nil, fmt.Errorf("building %s-%s: %w", p.Name, p.Version, err)
		}
		r.Built[p.Arch] = append(r.Built[p.Arch], b)
	}
	for arch, bs := range r.Built {
		ad := filepath.Join(dir, arch)
		if err := os.MkdirAll(ad, 0o755); err != nil {
			return nil, err
		}
		var text strings.Builder
		for _, b := range bs {
			if err := os.WriteFile(filepath.Join(ad, b.Filename()), b.Bytes, 0o644); err != nil {
				return nil, err
			}
			text.WriteString(IndexEntry(b))
		}
		whole, _, err := IndexArchive(text.String(), key, "RSA256")
		if err != nil {
			return nil, err
		}
		if err := os.WriteFile(filepath.Join(ad, "APKINDEX.tar.gz"), whole, 0o644); err != nil {
			return nil, err
		}
	}
	if key != nil {
		kd := filepath.Join(dir, "keys")
		if err := os.MkdirAll(kd, 0o755); err != nil {
			return nil, err
		}
		if err := os.WriteFile(filepath.Join(kd, key.Name), key.Pub, 0o644); err != nil {
			return nil, err
		}
	}
	return r, nil
}

// KeyPath is the path of the public key file.
func (r *Repo) KeyPath() string { return filepath.Join(r.Dir, "keys", r.Key.Name) }

// Serve serves the repository directory over HTTP (plain file server with
// ETag = quoted sha256 prefix of the file, so the index cache has a revision).
func (r *Repo) Serve() *httptest.Server {
	fsrv := http.FileServer(http.Dir(r.Dir))
	return httptest.NewServer(http.HandlerFunc(func(w http.ResponseWriter, req *http.Request) {
		p := filepath.Join(r.Dir, filepath.FromSlash(filepath.Clean("/"+req.URL.Path)))
		if b, err := os.ReadFile(p); err == nil {
			s := sha256.Sum256(b)
			w.Header().Set("ETag", `"`+hex.EncodeToString(s[:8])+`"`)
		}
		fsrv.ServeHTTP(w, req)
	}))
}
