// Package tarcase is shared by the c06 and c10 harnesses: it builds filesystems
// through the FullFS interface (tarfs / memfs), reads their state back through
// the interface, converts tar headers to abstract entries, untars emitted layers
// with the standard library's reader, and prints everything as Gallina terms.
package tarcase

import (
	"archive/tar"
	"bytes"
	"compress/gzip"
	"crypto/sha1" //nolint:gosec
	"crypto/sha256"
	"encoding/binary"
	"encoding/hex"
	"encoding/json"
	"fmt"
	"io"
	"io/fs"
	"os"
	"sort"
	"strings"
	"time"

	"golang.org/x/sys/unix"

	"chainguard.dev/apko/pkg/apk/apk"
	apkfs "chainguard.dev/apko/pkg/apk/fs"
	"chainguard.dev/apko/pkg/tarfs"
	"verifharness/gal"

	v1 "github.com/google/go-containerregistry/pkg/v1"
)

// ---- description of a filesystem to build ---------------------------------

type Op struct {
	Path    string            `json:"path"`
	Kind    string            `json:"kind"` // dir reg sym chr link
	Via     string            `json:"via"`  // api | hdr (tarfs WriteHeader)
	Mode    uint32            `json:"mode"` // permission bits | 04000 | 02000 | 01000
	UID     int               `json:"uid"`
	GID     int               `json:"gid"`
	Sec     int64             `json:"sec"`
	Nsec    int64             `json:"nsec"`
	NoTime  bool              `json:"notime,omitempty"`
	Xattrs  map[string]string `json:"xattrs,omitempty"`
	Size    int               `json:"size,omitempty"`
	CSeed   int               `json:"cseed,omitempty"`
	Target  string            `json:"target,omitempty"` // symlink target or hard-link target path
	Maj     uint32            `json:"maj,omitempty"`
	Min     uint32            `json:"min,omitempty"`
	Pkg     string            `json:"pkg,omitempty"`
	Content []byte            `json:"-"`
}

type IDName struct {
	ID   int    `json:"id"`
	Name string `json:"name"`
}

type FSCase struct {
	Name    string                  `json:"name"`
	Backend string                  `json:"backend"` // tarfs | memfs
	Ops     []Op                    `json:"ops"`
	Users   []IDName                `json:"users"`
	Groups  []IDName                `json:"groups"`
	Passwd  bool                    `json:"passwd"` // write etc/passwd + etc/group
	Pkgs    map[string]*apk.Package `json:"-"`      // optional: packages by name (default: synthesised)
}

func GenContent(seed, n int) []byte {
	b := make([]byte, n)
	x := uint32(seed*2654435761 + 12345)
	for i := range b {
		x = x*1664525 + 1013904223
		b[i] = byte(x >> 24)
	}
	return b
}

func CidOf(b []byte) uint64 {
	if len(b) == 0 {
		return 0
	}
	h := sha256.Sum256(b)
	return binary.BigEndian.Uint64(h[:8])>>8 + 1
}

func GoMode(m uint32) fs.FileMode {
	fm := fs.FileMode(m & 0o777)
	if m&0o4000 != 0 {
		fm |= fs.ModeSetuid
	}
	if m&0o2000 != 0 {
		fm |= fs.ModeSetgid
	}
	if m&0o1000 != 0 {
		fm |= fs.ModeSticky
	}
	return fm
}

func PosixMode(fm fs.FileMode) uint32 {
	m := uint32(fm.Perm())
	if fm&fs.ModeSetuid != 0 {
		m |= 0o4000
	}
	if fm&fs.ModeSetgid != 0 {
		m |= 0o2000
	}
	if fm&fs.ModeSticky != 0 {
		m |= 0o1000
	}
	return m
}

// content server for tarfs-backed entries
type MapFS map[string][]byte

type mapFile struct {
	*bytes.Reader
	name string
	n    int
}

func (f *mapFile) Stat() (fs.FileInfo, error) { return nil, fs.ErrInvalid }
func (f *mapFile) Close() error               { return nil }
func (m MapFS) Open(name string) (fs.File, error) {
	b, ok := m[name]
	if !ok {
		return nil, fs.ErrNotExist
	}
	return &mapFile{Reader: bytes.NewReader(b), name: name, n: len(b)}, nil
}

type HeaderWriter interface {
	WriteHeader(hdr tar.Header, tfs fs.FS, pkg *apk.Package) (bool, error)
}

type Built struct {
	FS    apkfs.FullFS
	Links map[string]string // link path -> target path (successful link ops)
	Hdrs  []string          // link paths recorded with a header
	Errs  []string
	Pkgs  map[string]*apk.Package
}

func Tm(o Op) time.Time { return time.Unix(o.Sec, o.Nsec).UTC() }

// UnixOf projects a time to (seconds, nanoseconds). Go's zero time.Time ("no
// time was ever set on this node") is read as the Unix epoch, which is how
// archive/tar writes it.
func UnixOf(t time.Time) (int64, int64) {
	if t.IsZero() {
		return 0, 0
	}
	return t.Unix(), int64(t.Nanosecond())
}

func BuildFS(c *FSCase) *Built {
	var fsys apkfs.FullFS
	if c.Backend == "memfs" {
		fsys = apkfs.NewMemFS()
	} else {
		fsys = tarfs.New()
	}
	b := &Built{FS: fsys, Links: map[string]string{}, Pkgs: map[string]*apk.Package{}}
	contents := MapFS{}
	pkgs := b.Pkgs
	for k, v := range c.Pkgs {
		pkgs[k] = v
	}
	fail := func(o Op, err error) {
		if err != nil {
			b.Errs = append(b.Errs, fmt.Sprintf("%s %s: %v", o.Kind, o.Path, err))
		}
	}
	if c.Passwd {
		_ = fsys.MkdirAll("etc", 0o755)
		var pw, gr strings.Builder
		for _, u := range c.Users {
			fmt.Fprintf(&pw, "%s:x:%d:%d:%s:/home/%s:/bin/sh\n", u.Name, u.ID, u.ID, u.Name, u.Name)
		}
		for _, g := range c.Groups {
			fmt.Fprintf(&gr, "%s:x:%d:\n", g.Name, g.ID)
		}
		_ = fsys.WriteFile("etc/passwd", []byte(pw.String()), 0o644)
		_ = fsys.WriteFile("etc/group", []byte(gr.String()), 0o644)
	}
	for i := range c.Ops {
		o := &c.Ops[i]
		if o.Kind == "reg" && o.Content == nil {
			o.Content = GenContent(o.CSeed, o.Size)
		}
		pax := map[string]string{}
		for k, v := range o.Xattrs {
			pax["SCHILY.xattr."+k] = v
		}
		hw, isHW := fsys.(HeaderWriter)
		viaHdr := o.Via == "hdr" && isHW
		pkg := pkgs[o.Pkg]
		if pkg == nil {
			pkg = &apk.Package{Name: o.Pkg, Version: "1.0-r0", Origin: o.Pkg}
			pkgs[o.Pkg] = pkg
		}
		meta := func() {
			if o.UID != 0 || o.GID != 0 {
				fail(*o, fsys.Chown(o.Path, o.UID, o.GID))
			}
			if !o.NoTime {
				fail(*o, fsys.Chtimes(o.Path, Tm(*o), Tm(*o)))
			}
			for k, v := range o.Xattrs {
				fail(*o, fsys.SetXattr(o.Path, k, []byte(v)))
			}
		}
		switch o.Kind {
		case "dir":
			if viaHdr {
				_, err := hw.WriteHeader(tar.Header{Typeflag: tar.TypeDir, Name: o.Path, Mode: int64(o.Mode), ModTime: Tm(*o), PAXRecords: pax}, contents, pkg)
				fail(*o, err)
				if o.UID != 0 || o.GID != 0 {
					fail(*o, fsys.Chown(o.Path, o.UID, o.GID))
				}
			} else {
				fail(*o, fsys.Mkdir(o.Path, GoMode(o.Mode)))
				meta()
			}
		case "reg":
			if viaHdr {
				sum := sha1.Sum(o.Content) //nolint:gosec
				pax["APK-TOOLS.checksum.SHA1"] = hex.EncodeToString(sum[:])
				contents[o.Path] = o.Content
				_, err := hw.WriteHeader(tar.Header{Typeflag: tar.TypeReg, Name: o.Path, Mode: int64(o.Mode), Size: int64(len(o.Content)),
					ModTime: Tm(*o), Uid: o.UID, Gid: o.GID, PAXRecords: pax}, contents, pkg)
				fail(*o, err)
			} else {
				fail(*o, fsys.WriteFile(o.Path, o.Content, GoMode(o.Mode)))
				meta()
			}
		case "sym":
			if viaHdr {
				sum := sha1.Sum([]byte(o.Target)) //nolint:gosec
				_, err := hw.WriteHeader(tar.Header{Typeflag: tar.TypeSymlink, Name: o.Path, Linkname: o.Target, Mode: 0o777, ModTime: Tm(*o),
					PAXRecords: map[string]string{"APK-TOOLS.checksum.SHA1": hex.EncodeToString(sum[:])}}, contents, pkg)
				fail(*o, err)
			} else {
				fail(*o, fsys.Symlink(o.Target, o.Path))
			}
		case "chr":
			fail(*o, fsys.Mknod(o.Path, o.Mode, int(unix.Mkdev(o.Maj, o.Min))))
			meta()
		case "link":
			var err error
			if viaHdr {
				_, err = hw.WriteHeader(tar.Header{Typeflag: tar.TypeLink, Name: o.Path, Linkname: o.Target, Mode: int64(o.Mode), ModTime: Tm(*o)}, contents, pkg)
				if err == nil {
					b.Hdrs = append(b.Hdrs, o.Path)
				}
			} else {
				err = fsys.Link(o.Target, o.Path)
			}
			fail(*o, err)
			if err == nil {
				b.Links[o.Path] = o.Target
			}
		}
	}
	return b
}

// ---- reading the state back through the interface ---------------------------

type RNode struct {
	name     string
	kind     string
	mode     uint32
	uid, gid int
	sec      int64
	nsec     int64
	xattrs   [][2]string
	cid      uint64
	size     int
	target   string
	maj, min uint32
	children []*RNode
	hard     string
}

func SortedX(m map[string][]byte) [][2]string {
	var out [][2]string
	for k, v := range m {
		out = append(out, [2]string{k, string(v)})
	}
	sort.Slice(out, func(i, j int) bool { return out[i][0] < out[j][0] })
	return out
}

func ReadBack(fsys apkfs.FullFS, dir string, links map[string]string) ([]*RNode, error) {
	des, err := fsys.ReadDir(dir)
	if err != nil {
		return nil, err
	}
	var out []*RNode
	for _, de := range des {
		p := de.Name()
		if dir != "." {
			p = dir + "/" + de.Name()
		}
		info, err := de.Info()
		if err != nil {
			return nil, err
		}
		n := &RNode{name: de.Name(), mode: PosixMode(info.Mode())}
		n.sec, n.nsec = UnixOf(info.ModTime())
		if th, ok := info.Sys().(*tar.Header); ok {
			n.uid, n.gid = th.Uid, th.Gid
		}
		fm := info.Mode()
		switch {
		case fm&fs.ModeSymlink != 0:
			n.kind = "sym"
			if n.target, err = fsys.Readlink(p); err != nil {
				return nil, err
			}
		case info.IsDir():
			n.kind = "dir"
			if n.children, err = ReadBack(fsys, p, links); err != nil {
				return nil, err
			}
		case fm&fs.ModeCharDevice != 0:
			n.kind = "chr"
			dev, err := fsys.Readnod(p)
			if err != nil {
				return nil, err
			}
			n.maj, n.min = unix.Major(uint64(dev)), unix.Minor(uint64(dev))
		case fm.IsRegular():
			n.kind = "reg"
			data, err := fsys.ReadFile(p)
			if err != nil {
				return nil, err
			}
			n.cid, n.size = CidOf(data), len(data)
		default:
			return nil, fmt.Errorf("unexpected mode %v at %s", fm, p)
		}
		if n.kind != "sym" {
			if xa, err := fsys.ListXattrs(p); err == nil {
				n.xattrs = SortedX(xa)
			}
		}
		n.hard = links[p]
		out = append(out, n)
	}
	return out, nil
}

// ---- Gallina printing ----------------------------------------------------------

func PathTerm(p string) string {
	var cs []string
	for _, c := range strings.Split(p, "/") {
		if c != "" && c != "." {
			cs = append(cs, c)
		}
	}
	return gal.StrList(cs)
}

func XaTerm(x [][2]string) string {
	items := make([]string, len(x))
	for i, kv := range x {
		items[i] = gal.Pair(gal.Str(kv[0]), gal.Str(kv[1]))
	}
	return gal.List(items)
}

func TreeTerm(ns []*RNode) string {
	items := make([]string, len(ns))
	for i, n := range ns {
		m := fmt.Sprintf("(mkm %s %s %s %s %s %s)", gal.N(uint64(n.mode)), gal.Z(int64(n.uid)), gal.Z(int64(n.gid)), gal.Z(n.sec), gal.N(uint64(n.nsec)), XaTerm(n.xattrs))
		var t string
		hard := gal.Opt(n.hard != "", PathTerm(n.hard))
		switch n.kind {
		case "dir":
			t = fmt.Sprintf("(Dir %s %s)", m, TreeTerm(n.children))
		case "reg":
			t = fmt.Sprintf("(File %s (LReg %s %s) %s)", m, gal.N(n.cid), gal.N(uint64(n.size)), hard)
		case "sym":
			t = fmt.Sprintf("(File %s (LSym %s) %s)", m, gal.Str(n.target), hard)
		case "chr":
			t = fmt.Sprintf("(File %s (LChr %s %s) %s)", m, gal.N(uint64(n.maj)), gal.N(uint64(n.min)), hard)
		}
		items[i] = gal.Pair(gal.Str(n.name), t)
	}
	return gal.List(items)
}

type Ent struct {
	path      string
	kind      string
	mode      int64
	uid, gid  int
	un, gn    string
	link      string
	maj, min  int64
	xattrs    [][2]string
	sec, nsec int64
	cid       uint64
	size      int64
	otherPAX  []string
}

func KindOf(tf byte) string {
	switch tf {
	case tar.TypeReg, 0:
		return "KReg"
	case tar.TypeDir:
		return "KDir"
	case tar.TypeSymlink:
		return "KSym"
	case tar.TypeChar:
		return "KChr"
	case tar.TypeLink:
		return "KLink"
	}
	return ""
}

func EntOfHeader(h *tar.Header) (Ent, bool) {
	e := Ent{path: h.Name, kind: KindOf(h.Typeflag), mode: h.Mode & 0o7777, uid: h.Uid, gid: h.Gid, un: h.Uname, gn: h.Gname,
		link: h.Linkname, maj: h.Devmajor, min: h.Devminor, size: h.Size}
	e.sec, e.nsec = UnixOf(h.ModTime)
	var keys []string
	for k := range h.PAXRecords {
		keys = append(keys, k)
	}
	sort.Strings(keys)
	for _, k := range keys {
		if strings.HasPrefix(k, "SCHILY.xattr.") {
			e.xattrs = append(e.xattrs, [2]string{strings.TrimPrefix(k, "SCHILY.xattr."), h.PAXRecords[k]})
		} else {
			e.otherPAX = append(e.otherPAX, k)
		}
	}
	return e, e.kind != ""
}

func EntTerm(e Ent) string {
	return fmt.Sprintf("(mke %s %s %s %s %s %s %s %s %s %s %s %s %s %s %s)", PathTerm(e.path), e.kind, gal.N(uint64(e.mode)),
		gal.Z(int64(e.uid)), gal.Z(int64(e.gid)), gal.Opt(e.un != "", gal.Str(e.un)), gal.Opt(e.gn != "", gal.Str(e.gn)), gal.Str(e.link),
		gal.N(uint64(e.maj)), gal.N(uint64(e.min)), XaTerm(e.xattrs), gal.Z(e.sec), gal.N(uint64(e.nsec)), gal.N(e.cid), gal.N(uint64(e.size)))
}

func EntsTerm(es []Ent) string {
	items := make([]string, len(es))
	for i, e := range es {
		items[i] = EntTerm(e)
	}
	return gal.List(items)
}

func IDTerm(xs []IDName) string {
	items := make([]string, len(xs))
	for i, x := range xs {
		items[i] = gal.Pair(gal.Z(int64(x.ID)), gal.Str(x.Name))
	}
	return gal.List(items)
}

func ImplViolation(tag string, v any) {
	b, _ := json.Marshal(v)
	fmt.Printf("IMPL-VIOLATION tag=%s %s\n", tag, b)
}

// Untar reads a tar stream with the standard library reader, independently of apko.
func Untar(r io.Reader) ([]Ent, error) {
	tr := tar.NewReader(r)
	var out []Ent
	for {
		h, err := tr.Next()
		if err == io.EOF {
			return out, nil
		}
		if err != nil {
			return out, err
		}
		e, ok := EntOfHeader(h)
		if !ok {
			return out, fmt.Errorf("unexpected typeflag %q at %s", h.Typeflag, h.Name)
		}
		data, err := io.ReadAll(tr)
		if err != nil {
			return out, err
		}
		if int64(len(data)) != h.Size && e.kind == "KReg" {
			return out, fmt.Errorf("short content at %s", h.Name)
		}
		e.cid = CidOf(data)
		out = append(out, e)
	}
}

// WalkEnts converts what the real walkFS yielded into abstract entries (content
// ids are read from the filesystem for regular files, as writeTar does).
func WalkEnts(fsys apkfs.FullFS, paths []string, hdrs []*tar.Header, desc any) ([]Ent, bool) {
	var out []Ent
	for i, h := range hdrs {
		e, ok := EntOfHeader(h)
		if !ok {
			ImplViolation("unexpected-typeflag", map[string]any{"case": desc, "path": paths[i]})
			return nil, false
		}
		if len(e.otherPAX) > 0 {
			ImplViolation("unexpected-pax-record", map[string]any{"case": desc, "path": paths[i], "keys": e.otherPAX})
		}
		if e.kind == "KReg" && h.Size > 0 {
			data, err := fsys.ReadFile(paths[i])
			if err != nil {
				ImplViolation("serialise-error", map[string]any{"case": desc, "where": "open", "err": err.Error()})
				return nil, false
			}
			e.cid = CidOf(data)
		}
		out = append(out, e)
	}
	return out, true
}

// ReadLayer gunzips and untars an emitted layer file with the standard library
// and recomputes digest / diff-id / size against what the v1.Layer advertises
// (byte-level part: exploration, reported as IMPL-VIOLATION lines).
func ReadLayer(layer v1.Layer, file string, desc any) (ents []Ent, plainLen int, ok bool) {
	var raw []byte
	var err error
	if file != "" {
		raw, err = os.ReadFile(file)
	} else {
		var rc io.ReadCloser
		if rc, err = layer.Compressed(); err == nil {
			raw, err = io.ReadAll(rc)
			rc.Close()
		}
	}
	if err != nil {
		ImplViolation("layer-file-missing", map[string]any{"case": desc, "err": err.Error()})
		return nil, 0, false
	}
	zr, err := gzip.NewReader(bytes.NewReader(raw))
	if err != nil {
		ImplViolation("layer-not-gzip", map[string]any{"case": desc, "err": err.Error()})
		return nil, 0, false
	}
	plain, err := io.ReadAll(zr)
	if err != nil {
		ImplViolation("layer-not-gzip", map[string]any{"case": desc, "err": err.Error()})
		return nil, 0, false
	}
	dg, _ := layer.Digest()
	di, _ := layer.DiffID()
	sz, _ := layer.Size()
	h1, h2 := sha256.Sum256(raw), sha256.Sum256(plain)
	if dg.Algorithm != "sha256" || dg.Hex != hex.EncodeToString(h1[:]) {
		ImplViolation("digest-mismatch", map[string]any{"case": desc, "advertised": dg.String(), "actual": hex.EncodeToString(h1[:])})
	}
	if di.Algorithm != "sha256" || di.Hex != hex.EncodeToString(h2[:]) {
		ImplViolation("diffid-mismatch", map[string]any{"case": desc, "advertised": di.String(), "actual": hex.EncodeToString(h2[:])})
	}
	if sz != int64(len(raw)) {
		ImplViolation("size-mismatch", map[string]any{"case": desc, "advertised": sz, "actual": len(raw)})
	}
	if rc, err := layer.Compressed(); err == nil {
		again, _ := io.ReadAll(rc)
		rc.Close()
		if !bytes.Equal(again, raw) {
			ImplViolation("compressed-differs-from-file", map[string]any{"case": desc})
		}
	} else {
		ImplViolation("compressed-unreadable", map[string]any{"case": desc, "err": err.Error()})
	}
	ents, err = Untar(bytes.NewReader(plain))
	if err != nil {
		ImplViolation("layer-unreadable", map[string]any{"case": desc, "err": err.Error()})
		return nil, len(plain), false
	}
	return ents, len(plain), true
}

// WalkLess is the order of fs.WalkDir over slash-separated paths.
func WalkLess(a, b string) bool {
	x, y := strings.Split(a, "/"), strings.Split(b, "/")
	for i := 0; i < len(x) && i < len(y); i++ {
		if x[i] != y[i] {
			return x[i] < y[i]
		}
	}
	return len(x) < len(y)
}
