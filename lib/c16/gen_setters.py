#!/usr/bin/env python3
"""Prints the record + setter block of coq/Model/Formats.v (run by hand when the field list changes)."""
fields = [("name","string"),("version","string"),("arch","string"),("desc","string"),("license","string"),
          ("origin","string"),("maint","string"),("url","string"),("commit","string"),
          ("checksum","list N"),("deps","list string"),("provides","list string"),("installif","list string"),
          ("replaces","list string"),("size","N"),("isize","N"),("prio","N"),("btime","Z"),("bdate","Z")]
print("Record pkg := mkPkg {")
print(";\n".join("  p_%s : %s" % f for f in fields))
print("}.")
for i,(f,t) in enumerate(fields):
    args = " ".join(("v" if j==i else "(p_%s p)" % g) for j,(g,_) in enumerate(fields))
    print("Definition set_%s (v : %s) (p : pkg) : pkg := mkPkg %s." % (f,t,args))
