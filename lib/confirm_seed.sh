#!/bin/bash
# usage: lib/confirm_seed.sh <seed-worktree> <i> — confirm a seeded change: builds, suite passes, demo fails with / passes without
wt=$1; i=$2; d=$wt/_seeded/$i
export GOFLAGS=-mod=mod GOPROXY=off GOSUMDB=off GOTOOLCHAIN=local
cd "$wt" || exit 2
git checkout -q -- . ; git clean -qfd -e _seeded
pkgdir=$(grep -m1 -oE '(pkg|internal)/[A-Za-z0-9_/.-]+' "$d/demo_test.go" | head -1)
[ -d "$pkgdir" ] || { echo "cannot find package dir for demo (got '$pkgdir')"; head -5 "$d/demo_test.go"; exit 2; }
run_demo() { cp "$d/demo_test.go" "$pkgdir/zz_seed_demo_test.go"; go test -vet=off -count=1 "./$pkgdir/" -run "$(grep -oE 'func (Test[A-Za-z0-9_]+)' "$d/demo_test.go" | awk '{print $2}' | paste -sd'|')" >/tmp/seed_demo.out 2>&1; rc=$?; rm -f "$pkgdir/zz_seed_demo_test.go"; return $rc; }
run_demo; base=$?
git apply "$d/patch.diff" || { echo "patch does not apply"; exit 2; }
go build ./... || { echo "BUILD FAILS"; git checkout -q -- .; exit 1; }
suite=$(go test -vet=off -count=1 -timeout 25m ./... 2>&1 | grep -E "^--- FAIL" | grep -v TestInitDB_ChainguardDiscovery | head -3)
run_demo; with=$?
git checkout -q -- . ; git clean -qfd -e _seeded
echo "seed $i: demo@HEAD rc=$base (want 0), suite failures with patch: [${suite}] (want none), demo with patch rc=$with (want !=0), demo pkg=$pkgdir"
[ $base -eq 0 ] && [ -z "$suite" ] && [ $with -ne 0 ] && echo "CONFIRMED" || echo "NOT CONFIRMED"
