#!/bin/bash
# usage: goals.sh <file.v> <line> — show the proof state after <line> lines
f=$1; n=$2
tmp=$(mktemp /tmp/goalsXXXX.v)
head -n "$n" "$f" > "$tmp"
echo "Show. " >> "$tmp"
cd /verif/coq && timeout 120 coqc -Q . Apko "$tmp" 2>&1 | grep -v "^File\|Error: There are pending proofs\|^$" | head -${3:-60}
rm -f "$tmp" "${tmp%.v}.vo" "${tmp%.v}.glob" "${tmp%.v}.vok" "${tmp%.v}.vos" /tmp/.goals*.aux
