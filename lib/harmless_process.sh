#!/bin/bash
# usage: lib/harmless_process.sh <Cxx> <worktree> [ids...] — for every behaviour-preserving change of the worktree (_harmless/<i>/patch.diff):
# confirm it (applies, builds, the unedited suite passes), run the property's check against a patched scratch copy (lib/trial.sh, quick
# tier) and keep patch + README + meta.json (result) under /verif/harmless/<Cxx>-<i>/.  A check that does not print OK raised a FALSE ALARM.
prop=$1; wt=$2; shift 2
ids=${@:-1 2 3}
export GOFLAGS=-mod=mod GOPROXY=off GOSUMDB=off GOTOOLCHAIN=local
exec 9>/verif/build/${SEED_LOCK:-seed.lock}
flock 9
for i in $ids; do
  d=$wt/_harmless/$i
  [ -f "$d/patch.diff" ] || { echo "== $prop-h$i: no patch"; continue; }
  ( cd "$wt" && git checkout -q -- . && git clean -qfd -e _harmless && git apply "$d/patch.diff" ) || { echo "== $prop-h$i: patch does not apply"; continue; }
  ( cd "$wt" && go build ./... ) || { echo "== $prop-h$i: BUILD FAILS"; ( cd "$wt" && git checkout -q -- . ); continue; }
  suite=$(cd "$wt" && go test -vet=off -count=1 -timeout 25m ./... 2>&1 | grep -E "^--- FAIL" | grep -v TestInitDB_ChainguardDiscovery | head -3)
  ( cd "$wt" && git checkout -q -- . && git clean -qfd -e _harmless )
  if [ -n "$suite" ]; then echo "== $prop-h$i: suite fails with the change: $suite (not kept)"; continue; fi
  TRIAL_TAIL=6 /verif/lib/trial.sh "$d/patch.diff" "$prop" quick > "$d/trial.txt" 2>&1
  res=$(grep -E '^(VIOLATION|OK property)' "$d/trial.txt" | head -1 | sed 's|/scratch/trial\.[A-Za-z0-9]*/verif/||')
  sum=$(grep -A1 -- '--- replay file:' "$d/trial.txt" | tail -1 | cut -c1-1500)
  k=/verif/harmless/$prop-$i
  mkdir -p "$k"; cp "$d/patch.diff" "$d/README.md" "$k/" 2>/dev/null
  python3 - "$k" "$prop" "$res" "$sum" <<'PY'
import json, sys
k, prop, res, summ = sys.argv[1:5]
readme = open(k + "/README.md").read() if __import__("os").path.exists(k + "/README.md") else ""
try:
    summ = json.loads(summ)
except Exception:
    pass
json.dump({"property": prop, "kind": "behaviour-preserving change (false-alarm trial)", "what": readme.strip().split("\n\n")[0][:600],
           "confirmed_by": "lib/harmless_process.sh (applies, go build ./..., full suite passes except the offline-only TestInitDB_ChainguardDiscovery)",
           "check_run": "lib/trial.sh harmless/%s/patch.diff %s quick" % (k.split("/")[-1], prop),
           "check_result_first": res, "check_result": res, "check_replay_summary": summ}, open(k + "/meta.json", "w"), indent=1)
PY
  echo "== $prop-h$i: $res"
  [ "${res#OK}" = "$res" ] && echo "   $sum" | cut -c1-700
done
