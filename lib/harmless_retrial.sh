#!/bin/bash
# usage: lib/harmless_retrial.sh <Cxx-i> ["note"] — re-run the property's check against a kept behaviour-preserving change and record the
# result in its meta.json (check_result = now; the first result stays as check_result_first)
name=$1; note=$2
d=/verif/harmless/$name
prop=${name%%-*}
[ -f "$d/patch.diff" ] || { echo "no such change $name"; exit 2; }
out=$(mktemp)
TRIAL_TAIL=4 /verif/lib/trial.sh "$d/patch.diff" "$prop" quick > "$out" 2>&1
res=$(grep -E '^(VIOLATION|OK property)' "$out" | head -1 | sed 's|/scratch/trial\.[A-Za-z0-9]*/verif/||')
sum=$(grep -A1 -- '--- replay file:' "$out" | tail -1 | cut -c1-1500)
python3 - "$d/meta.json" "$res" "$sum" "$note" <<'PY'
import json, sys
f, res, summ, note = sys.argv[1:5]
m = json.load(open(f))
m["check_result"] = res
if note:
    m["made_tolerant_by"] = note
try:
    m["check_replay_summary"] = json.loads(summ)
except Exception:
    m["check_replay_summary"] = summ
json.dump(m, open(f, "w"), indent=1)
PY
echo "$name: $res"
rm -f "$out"
