#!/bin/bash
# usage: lib/keep_seed.sh <seed-worktree> <i> <Cxx> "<what the check printed>" — store a confirmed seeded change under /verif/seeded/
wt=$1; i=$2; prop=$3; result=$4
d=/verif/seeded/$prop-$i
mkdir -p "$d"
cp "$wt/_seeded/$i/patch.diff" "$wt/_seeded/$i/demo_test.go" "$d/"
cp "$wt/_seeded/$i/README.md" "$d/README.md"
python3 - "$d" "$prop" "$result" <<'PY'
import json, sys, re
d, prop, result = sys.argv[1:4]
readme = open(d + "/README.md").read()
meta = {
  "property": prop,
  "breaks": readme.strip().split("\n\n")[0][:600],
  "needs_to_manifest": (re.search(r"(?is)(needs?[^\n]*manifest[^\n]*\n.*?)(\n#|\Z)", readme) or [None, "see README.md"])[1][:800],
  "confirmed_by": "lib/confirm_seed.sh (scratch worktree: go build ./..., full suite passes except the offline-only TestInitDB_ChainguardDiscovery, demo fails with the patch and passes without)",
  "check_run": "lib/trial.sh seeded/%s/patch.diff %s" % (d.split('/')[-1], prop),
  "check_result": result,
}
json.dump(meta, open(d + "/meta.json", "w"), indent=1)
PY
echo "kept $d"
