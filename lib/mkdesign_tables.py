#!/usr/bin/env python3
"""Regenerate the generated tables of DESIGN.md (between BEGIN/END GENERATED markers) from
KNOWN_FINDINGS.txt, /repo's git log and seeded/*/meta.json. Hand-written text is left alone."""
import glob, json, os, re, subprocess
root = os.path.dirname(os.path.dirname(os.path.abspath(__file__)))


def esc(s):
    return s.replace("|", "\\|").replace("\n", " ")


def cut(s, n):
    s = " ".join(s.split())
    return s if len(s) <= n else s[: n - 1] + "…"


subj = {}
for l in subprocess.check_output(["git", "-C", "/repo", "log", "--format=%h %s"]).decode().splitlines():
    h, s = l.split(" ", 1)
    subj[h] = s

fixed, findings = [], []
for l in open(os.path.join(root, "KNOWN_FINDINGS.txt")):
    if not (l.startswith("fixed:") or l.startswith("finding:")):
        continue
    head, _, desc = l.partition(" -- ")
    kv = dict(re.findall(r"(\w+)=(\S+)", head))
    (fixed if l.startswith("fixed:") else findings).append((kv, desc.strip()))

t_fix = ["| property | commit | repair (commit subject) | what failed before |", "|---|---|---|---|"]
for kv, d in fixed:
    c = kv.get("commit", "?")
    t_fix.append("| %s | `%s` | %s | %s |" % (kv.get("property"), c, esc(subj.get(c, "?").replace("fix: ", "")), esc(cut(d, 260))))

t_find = ["| id | validator tag | site | what fails |", "|---|---|---|---|"]
for kv, d in sorted(findings, key=lambda x: (x[0].get("property", ""), x[0].get("id", ""))):
    t_find.append("| %s | `%s` | %s | %s |" % (kv.get("id", "?"), kv.get("tag", "?"), esc(cut(kv.get("site", ""), 90)), esc(cut(d, 240))))

t_seed = ["| seeded change | what it does (site) | needs in order to manifest | check result |", "|---|---|---|---|"]
for mf in sorted(glob.glob(os.path.join(root, "seeded", "*", "meta.json"))):
    name = os.path.basename(os.path.dirname(mf))
    m = json.load(open(mf))
    readme = ""
    try:
        readme = open(os.path.join(os.path.dirname(mf), "README.md")).read()
    except OSError:
        pass
    title = (m.get("breaks") or "").lstrip("# ").strip()
    if len(title) < 30 and readme:
        paras = [p for p in readme.split("\n\n") if p.strip() and not p.startswith("#")]
        title = title + " — " + (paras[0] if paras else "")
    needs = m.get("needs_to_manifest") or ""
    needs = re.sub(r"(?i)^#*\s*what it needs in order to manifest\s*", "", needs).strip()
    needs = re.sub(r"(?i)^needs in order to manifest\s*", "", needs).strip()
    res = m.get("check_result") or ""
    summ = m.get("check_replay_summary")
    extra = ""
    if isinstance(summ, dict):
        tags = [t for t in (summ.get("tags") or [])]
        nl = summ.get("no_longer_checks") or []
        if tags:
            extra = " stage `%s`, tags %s" % (summ.get("stage"), ", ".join("`%s`" % t for t in tags[:4]))
        elif nl:
            extra = " no longer checks: " + ", ".join((x.get("what") if isinstance(x, dict) else str(x)) for x in nl[:3])
    res = re.sub(r"replay=\S+", "", res).strip()
    first = re.sub(r"replay=\S+", "", m.get("check_result_first") or "").strip()
    if first and first != res:
        res = "first trial: " + cut(first, 120) + " — " + (m.get("strengthened") or "check strengthened") + " — now: " + res
    t_seed.append("| %s | %s | %s | %s%s |" % (name, esc(cut(title, 260)), esc(cut(needs, 260)), esc(cut(res, 330)), esc(extra)))

t_stat = ["| property | theorems in `coq/Properties` | of which `…_refuted` (witnessed) | of which `…_partial` | stages (harness) | findings open / fixed |", "|---|---|---|---|---|---|"]
import importlib, sys
sys.path.insert(0, os.path.join(root, "lib")); sys.path.insert(0, os.path.join(root, "props"))
for i in range(1, 21):
    pid = "C%02d" % i
    try:
        txt = open(os.path.join(root, "coq", "Properties", pid + ".v")).read()
    except OSError:
        continue
    names = re.findall(r"^\s*(?:Theorem|Corollary)\s+([A-Za-z0-9_']+)", txt, re.M)
    ref = [n for n in names if "refuted" in n]
    par = [n for n in names if "partial" in n]
    try:
        P = importlib.import_module(pid.lower()).PROP
        stages = ", ".join(st["name"] for st in P.stages)
    except Exception:
        stages = "?"
    nopen = len([1 for kv, _ in findings if kv.get("property") == pid])
    nfix = len([1 for kv, _ in fixed if kv.get("property") == pid])
    t_stat.append("| %s | %d | %s | %s | %s | %d / %d |" % (pid, len(names), ", ".join("`%s`" % n for n in ref) or "—", ", ".join("`%s`" % n for n in par) or "—", stages, nopen, nfix))

tables = {"fixes": t_fix, "findings": t_find, "seeded": t_seed, "status": t_stat}
p = os.path.join(root, "DESIGN.md")
s = open(p).read()
for k, rows in tables.items():
    b, e = "<!-- BEGIN GENERATED: %s -->" % k, "<!-- END GENERATED: %s -->" % k
    if b in s and e in s:
        s = s[: s.index(b) + len(b)] + "\n" + "\n".join(rows) + "\n" + s[s.index(e):]
    else:
        print("marker for %s not found in DESIGN.md" % k)
open(p, "w").write(s)
print("DESIGN.md tables: %d fixes, %d findings, %d seeded" % (len(fixed), len(findings), len(t_seed) - 2))
