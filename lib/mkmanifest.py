#!/usr/bin/env python3
"""Regenerate MANIFEST.json from props/*.py (one check per property module)."""
import glob, importlib, json, os, sys
here = os.path.dirname(os.path.abspath(__file__))
root = os.path.dirname(here)
sys.path.insert(0, here); sys.path.insert(0, os.path.join(root, "props"))
import vlib

ALL = ["C%02d" % i for i in range(1, 21)]
NA = {}   # property -> reason, for properties not claimed
na_file = os.path.join(root, "props", "not_applicable.json")
if os.path.exists(na_file):
    NA = json.load(open(na_file))

checks = []
claimed = []
for pid in ALL:
    p = os.path.join(root, "props", pid.lower() + ".py")
    if not os.path.exists(p):
        continue
    m = importlib.import_module(pid.lower())
    P = m.PROP
    claimed.append(pid)
    checks.append({
        "property_id": pid,
        "quick_cmd": "./check %s --tier quick" % pid,
        "thorough_cmd": "./check %s --tier thorough" % pid,
        "evidence_file": "/verif/evidence/%s.json" % pid,
        "replay_cmd_template": "./check %s --replay {path}" % pid,
        "engine": "coq-proof+correspondence",
        "level_claimed": {"category": "proof", "text": getattr(P, "level_text", ""), "design_ref": getattr(P, "design_ref", "DESIGN.md section 7, " + pid)},
        "level_note": getattr(P, "level_note", "") or "; ".join(P.assumptions),
        "technique": getattr(P, "technique", "machine-checked proof in Coq 8.16.1 about an executable Gallina model + regenerated constants + differential correspondence (vm_compute) against the Go implementation"),
    })
hook_commits = []
hf = os.path.join(root, "HOOK_COMMITS.txt")
if os.path.exists(hf):
    hook_commits = [l.split()[0] for l in open(hf) if l.strip() and not l.startswith("#")]
man = {
    "version": 1,
    "setup_cmd": "./setup.sh",
    "hooks": {
        "guard": "verif",
        "enable": "go build -tags verif (harness module /verif/harness with replace chainguard.dev/apko => /repo)",
        "baseline_off_cmd": "cd /repo && GOFLAGS=-mod=mod GOPROXY=off GOSUMDB=off go test -json -vet=off -count=1 -timeout 25m ./...",
        "source_commits": hook_commits,
        "add_only": True,
    },
    "engines": [{"name": "coq-proof+correspondence", "path": "/verif/check", "serves_properties": claimed,
                 "kind_free_text": "Coq 8.16.1 theorems about hand-written Gallina models (coq/Model, coq/Proofs, coq/Properties) + goextract-generated constants (coq/Generated) + Go harness whose observations are evaluated against model and verified validators inside coqc (coq/Corr)"}],
    "checks": checks,
    "not_applicable": [{"property_id": pid, "reason": NA.get(pid, "check not built yet in this session; see DESIGN.md section 7")} for pid in ALL if pid not in claimed],
    "notes": "See DESIGN.md. KNOWN_FINDINGS.txt lists recorded defects of the pinned tree. Evidence level is 'proof'; generated cases are labelled as correspondence/validator sampling inside each evidence file.",
}
json.dump(man, open(os.path.join(root, "MANIFEST.json"), "w"), indent=1)
print("MANIFEST.json: %d checks, %d not claimed" % (len(checks), len(man["not_applicable"])))
