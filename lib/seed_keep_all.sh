#!/bin/bash
# usage: lib/seed_keep_all.sh <Cxx> <seed-worktree> — keep every CONFIRMED seeded change of the worktree under /verif/seeded/<Cxx>-<i>/
prop=$1; wt=$2
for d in "$wt"/_seeded/*/; do
  i=$(basename "$d")
  [ -f "$d/confirm.txt" ] && [ "$(tail -1 "$d/confirm.txt")" = "CONFIRMED" ] || continue
  res=$(grep -E '^(VIOLATION|OK property)' "$d/trial.txt" | head -1 | sed 's|/scratch/trial\.[A-Za-z0-9]*/verif/||')
  sum=$(grep -A1 -- '--- replay file:' "$d/trial.txt" | tail -1 | cut -c1-1200)
  /verif/lib/keep_seed.sh "$wt" "$i" "$prop" "$res ${SEED_NOTE:-}" >/dev/null
  python3 - "/verif/seeded/$prop-$i/meta.json" "$sum" <<'PY'
import json, sys
m = json.load(open(sys.argv[1]))
try:
    m["check_replay_summary"] = json.loads(sys.argv[2])
except Exception:
    m["check_replay_summary"] = sys.argv[2]
json.dump(m, open(sys.argv[1], "w"), indent=1)
PY
  echo "kept $prop-$i: $res"
done
