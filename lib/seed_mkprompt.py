#!/usr/bin/env python3
"""usage: lib/seed_mkprompt.py Cxx <worktree> [n]  — print the prompt for a seeding sub-agent (property text only)."""
import json, sys, os
pid, wt = sys.argv[1], sys.argv[2]
n = sys.argv[3] if len(sys.argv) > 3 else "3"
start = int(sys.argv[4]) if len(sys.argv) > 4 else 1
root = os.path.dirname(os.path.dirname(os.path.abspath(__file__)))
for l in open(os.path.join(root, "properties.jsonl")):
    d = json.loads(l)
    if d["id"] == pid:
        break
else:
    sys.exit("no such property")
anch = d.get("anchors", {})
atxt = "files " + ", ".join(anch.get("files", []))
mech = anch.get("mechanism") or []
if mech:
    atxt += "; mechanisms: " + "; ".join("%s (%s)" % (m.get("name"), m.get("where")) for m in mech)
t = open(os.path.join(root, "lib", "harmless_prompt.md" if os.environ.get("HARMLESS") else "seed_prompt.md")).read()
import glob
prev = []
for f in sorted(glob.glob(os.path.join(root, "seeded", pid + "-*", "meta.json"))):
    m = json.load(open(f))
    prev.append("- " + " ".join(m["breaks"].strip().lstrip("#").split())[:260])
avoid = ""
if prev and start > 1:
    avoid = ("\n\nChanges of the following kinds have ALREADY been made by others; yours must hit other mechanisms, "
             "other code sites or other corners of the property (do not vary these):\n\n" + "\n".join(prev) + "\n")
stmt = d["statement"] + "\n> \n> Quantified " + d.get("quantifier", {}).get("text", "")
print(t.replace("@WT@", wt).replace("@ID@", pid).replace("@TITLE@", d["title"]).replace("@STATEMENT@", stmt)
       .replace("@ANCHORS@", atxt).replace("@RANGE@", "%d..%d" % (start, start + int(n) - 1)).replace("@N@", n).replace("@AVOID@", avoid))
