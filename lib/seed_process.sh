#!/bin/bash
# usage: lib/seed_process.sh <Cxx> <seed-worktree> [ids...]  — confirm each seeded change (suite passes, demo fails with / passes without),
# then run the property's check against a patched scratch copy (lib/trial.sh). Writes <worktree>/_seeded/<i>/confirm.txt and trial.txt.
prop=$1; wt=$2; shift 2
ids=${@:-1 2 3}
for i in $ids; do
  d=$wt/_seeded/$i
  [ -f "$d/patch.diff" ] || { echo "== $prop-$i: no patch"; continue; }
  /verif/lib/confirm_seed.sh "$wt" "$i" > "$d/confirm.txt" 2>&1
  c=$(tail -1 "$d/confirm.txt")
  echo "== $prop-$i: $c ($(grep '^seed' "$d/confirm.txt" | cut -c1-200))"
  if [ "$c" = "CONFIRMED" ]; then
    TRIAL_TAIL=4 /verif/lib/trial.sh "$d/patch.diff" "$prop" quick > "$d/trial.txt" 2>&1
    echo "   check: $(grep -E '^(VIOLATION|OK property)' "$d/trial.txt" | head -2 | tr '\n' ' ')"
    grep -A1 -- '--- replay file:' "$d/trial.txt" | tail -1 | cut -c1-900
  fi
done
