#!/bin/bash
# usage: lib/seed_queue.sh <Cxx> <worktree> — serialised (flock) confirm+trial+keep of a seeding worktree's changes
prop=$1; wt=$2
exec 9>/verif/build/${SEED_LOCK:-seed.lock}
flock 9
/verif/lib/seed_process.sh "$prop" "$wt" ${@:3} > /verif/build/logs/seed-$prop-$$.txt 2>&1
/verif/lib/seed_keep_all.sh "$prop" "$wt" >> /verif/build/logs/seed-$prop-$$.txt 2>&1
