#!/bin/bash
# usage: lib/trial.sh <patch-file|-> <Cxx> [tier]   — run a check against a patched scratch copy of /repo
# (never touches /repo or /verif's build state). Prints the check's output. "-" = no patch (sanity run).
set -e
patch=$1; prop=$2; tier=${3:-quick}
d=$(mktemp -d /scratch/trial.XXXXXX)
trap 'rm -rf "$d"' EXIT
mkdir -p "$d/repo" "$d/verif"
rsync -a --exclude .git /repo/ "$d/repo/" || [ $? -eq 24 ]
rsync -a --exclude .git --exclude build/cases --exclude build/tmp --exclude build/logs --exclude evidence/replays /verif/ "$d/verif/" || [ $? -eq 24 ]
# other agents may be editing /verif: judge the change with the COMMITTED machinery (tracked files that differ from HEAD are
# replaced by their HEAD version, freshly touched so that make rebuilds what depends on them)
if [ -z "$TRIAL_WORKTREE" ]; then
  git -C /verif diff --name-only HEAD | while read -r f; do
    if git -C /verif cat-file -e "HEAD:$f" 2>/dev/null; then mkdir -p "$d/verif/$(dirname "$f")"; git -C /verif show "HEAD:$f" > "$d/verif/$f"; fi
  done
fi
if [ "$patch" != "-" ]; then (cd "$d/repo" && patch -p1 --no-backup-if-mismatch < "$patch" >/dev/null); fi
cd "$d/verif"; set +e
VERIF_REPO="$d/repo" ./check "$prop" --tier "$tier" > "$d/out.txt" 2>&1; rc=$?; grep -E "^(VIOLATION|KNOWN-FINDING|OK property)" "$d/out.txt" || true; tail -${TRIAL_TAIL:-8} "$d/out.txt"

if ls evidence/replays/$prop-* >/dev/null 2>&1; then echo "--- replay file:"; python3 - evidence/replays/$prop-*.json <<'PY'
import json, sys
for f in sys.argv[1:]:
    d = json.load(open(f))
    nl = d.get("no_longer_checks")
    if nl and isinstance(nl[0], dict):
        nl = [{"what": x["what"], "detail": x["detail"][-400:]} for x in nl]
    print(json.dumps({"file": f.split("/")[-1], "stage": d.get("stage"), "case_index": d.get("case_index"), "tags": sorted(set(d.get("tags") or [])),
                      "no_longer_checks": nl, "first_mismatch": (d.get("first_mismatch") or {}).get("tags"),
                      "input": json.dumps(d.get("input"))[:int(__import__("os").environ.get("TRIAL_REPLAY_BYTES", "700"))]}))
PY
fi
exit $rc
