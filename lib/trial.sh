#!/bin/bash
# usage: lib/trial.sh <patch-file|-> <Cxx> [tier]   — run a check against a patched scratch copy of /repo
# (never touches /repo or /verif's build state). Prints the check's output. "-" = no patch (sanity run).
set -e
patch=$1; prop=$2; tier=${3:-quick}
d=$(mktemp -d /scratch/trial.XXXXXX)
trap 'rm -rf "$d"' EXIT
mkdir -p "$d/repo" "$d/verif"
rsync -a --exclude .git /repo/ "$d/repo/"
rsync -a --exclude .git --exclude build/cases --exclude evidence/replays /verif/ "$d/verif/"
if [ "$patch" != "-" ]; then (cd "$d/repo" && patch -p1 --no-backup-if-mismatch < "$patch" >/dev/null); fi
cd "$d/verif"; set +e
VERIF_REPO="$d/repo" ./check "$prop" --tier "$tier" > "$d/out.txt" 2>&1; rc=$?; grep -E "^(VIOLATION|KNOWN-FINDING|OK property)" "$d/out.txt" || true; tail -${TRIAL_TAIL:-8} "$d/out.txt"

if ls evidence/replays/$prop-* >/dev/null 2>&1; then echo "--- replay file:"; head -c ${TRIAL_REPLAY_BYTES:-1500} evidence/replays/$prop-*.json; echo; fi
exit $rc
