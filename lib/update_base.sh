#!/bin/bash
# Re-record the function-body hashes of the clean /repo tree (run after every commit to /repo).
set -e
cd "$(dirname "$0")/.."
if [ -n "$(git -C /repo status --porcelain --untracked-files=no)" ]; then echo "/repo has uncommitted changes to tracked files; refusing"; exit 1; fi
export GOFLAGS=-mod=mod GOPROXY=off GOSUMDB=off GOTOOLCHAIN=local
python3 -c "
import sys; sys.path.insert(0,'lib'); import vlib
e = vlib.run_goextract()
print(e or 'goextract ok')
"
cp build/funchash.json funchash.base.json
cp build/funclocals.json funclocals.base.json
mkdir -p coq/GeneratedBase && rm -f coq/GeneratedBase/*.v && cp coq/Generated/*.v coq/GeneratedBase/
echo "funchash.base.json updated ($(python3 -c "import json;print(len(json.load(open('funchash.base.json'))))") entries)"
