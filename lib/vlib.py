"""Shared machinery for ./check: build the harness from /repo's working tree,
regenerate coq/Generated, re-check the proofs, run the correspondence, classify,
write evidence.  Python 3 stdlib only."""
import fcntl, glob, hashlib, json, os, re, shutil, subprocess, sys, time

VERIF = os.path.dirname(os.path.dirname(os.path.abspath(__file__)))
REPO = os.environ.get("VERIF_REPO", "/repo")
COQ = os.path.join(VERIF, "coq")
BUILD = os.path.join(VERIF, "build")
HARNESS = os.path.join(VERIF, "harness")
EVID = os.path.join(VERIF, "evidence")
FINDINGS = os.path.join(VERIF, "KNOWN_FINDINGS.txt")

GOENV = dict(os.environ, GOFLAGS="-mod=mod", GOPROXY="off", GOSUMDB="off",
             GOTOOLCHAIN="local", CGO_ENABLED=os.environ.get("CGO_ENABLED", "0"))

KERNEL_TB = [
    "Coq 8.16.1 kernel (coqc, full .vo build; vm_compute used, native_compute not used)",
    "no axioms declared by the development; Print Assumptions output recorded per theorem",
    "goextract translator (regenerates coq/Generated/*.v from /repo on every run)",
    "Go harness + Gallina printer (runs the implementation, prints inputs and observed outputs as terms)",
    "hand-written Gallina model tied to the Go code by the correspondence check only",
]


class Lock:
    def __init__(self, name):
        os.makedirs(BUILD, exist_ok=True)
        self.path = os.path.join(BUILD, name)
    def __enter__(self):
        self.f = open(self.path, "w")
        fcntl.flock(self.f, fcntl.LOCK_EX)
    def __exit__(self, *a):
        fcntl.flock(self.f, fcntl.LOCK_UN)
        self.f.close()


COQ_MEM_BYTES = int(os.environ.get("VERIF_COQ_MEM_GB", "24")) << 30


def _limit_mem():
    """preexec for coqc/make/coqchk: a runaway normalisation dies at the address-space
    limit instead of pushing the machine into OOM (not applied to Go: its runtime
    reserves large virtual ranges)."""
    import resource
    try:
        resource.setrlimit(resource.RLIMIT_AS, (COQ_MEM_BYTES, COQ_MEM_BYTES))
    except (ValueError, OSError):
        pass


def sh(cmd, cwd=None, env=None, timeout=None, stdin=None, limit_mem=False):
    p = subprocess.run(cmd, cwd=cwd, env=env, timeout=timeout, input=stdin,
                       stdout=subprocess.PIPE, stderr=subprocess.STDOUT, text=True,
                       errors="replace", preexec_fn=_limit_mem if limit_mem else None)
    return p.returncode, p.stdout


# ------------------------------------------------------------------ building
def ensure_gosum():
    src = os.path.join(REPO, "go.sum")
    dst = os.path.join(HARNESS, "go.sum")
    try:
        if not os.path.exists(dst) or open(src).read() != open(dst).read():
            shutil.copyfile(src, dst)
    except OSError:
        pass


def modfile_args():
    """When VERIF_REPO points at a scratch copy, build against it through an
    alternative go.mod (the committed one says replace => /repo)."""
    if os.path.realpath(REPO) == "/repo":
        return []
    alt = os.path.join(BUILD, "alt.mod")
    os.makedirs(BUILD, exist_ok=True)
    txt = open(os.path.join(HARNESS, "go.mod")).read().replace("=> /repo", "=> " + os.path.realpath(REPO))
    if not os.path.exists(alt) or open(alt).read() != txt:
        open(alt, "w").write(txt)
    shutil.copyfile(os.path.join(REPO, "go.sum"), os.path.join(BUILD, "alt.sum"))
    return ["-modfile", alt]


def build_go(cmdname, race=False, tags="verif"):
    """go build ./cmd/<cmdname> against /repo's working tree. Returns (path, err)."""
    ensure_gosum()
    out = os.path.join(BUILD, "bin", cmdname + ("-race" if race else ""))
    os.makedirs(os.path.dirname(out), exist_ok=True)
    env = dict(GOENV)
    cmd = ["go", "build", "-tags", tags, "-o", out] + modfile_args()
    if race:
        env["CGO_ENABLED"] = "1"
        cmd.append("-race")
    cmd.append("./cmd/" + cmdname)
    with Lock("go.lock"):
        rc, log = sh(cmd, cwd=HARNESS, env=env, timeout=1200)
    if rc != 0:
        return None, log
    return out, None


def run_goextract():
    """Regenerate coq/Generated/*.v from /repo. Returns error text or None."""
    exe, err = build_go("goextract", tags="")
    if err:
        return "goextract build failed:\n" + err
    with Lock("coq.lock"):
        rc, log = sh([exe, "-repo", REPO, "-out", os.path.join(COQ, "Generated"),
                      "-fallback", os.path.join(COQ, "GeneratedBase"),
                      "-base", os.path.join(VERIF, "funchash.base.json")], timeout=300)
    if rc != 0:
        return "goextract failed:\n" + log
    return None


def write_coqproject():
    files = []
    for d in ["Base", "Generated", "Spec", "Model", "Proofs", "Properties", "Corr"]:
        files += sorted(glob.glob(os.path.join(COQ, d, "*.v")))
    txt = "-Q . Apko\n-arg -w -arg -notation-overridden,-deprecated-hint-without-locality,-deprecated-hint-rewrite-without-locality,-deprecated-instance-without-locality\n" + \
        "\n".join(os.path.relpath(f, COQ) for f in files) + "\n"
    p = os.path.join(COQ, "_CoqProject")
    old = open(p).read() if os.path.exists(p) else None
    if old != txt:
        open(p, "w").write(txt)
        return True
    return not os.path.exists(os.path.join(COQ, "Makefile"))


def coq_make(targets, timeout=3000, clean=False):
    """Full .vo build of the given targets (paths relative to coq/). (ok, log)."""
    with Lock("coq.lock"):
        if write_coqproject():
            rc, log = sh(["coq_makefile", "-f", "_CoqProject", "-o", "Makefile"], cwd=COQ)
            if rc != 0:
                return False, log
        if clean:
            sh(["make", "clean"], cwd=COQ)
        rc, log = sh(["make", "-j16", "-k"] + targets, cwd=COQ, timeout=timeout, limit_mem=True)
        if rc != 0 and re.search(r"\bKilled\b|Error 137", log) and not re.search(r"^Error:", log, re.M):
            # a coqc killed by a signal (OOM killer on a loaded machine), nothing rejected by Coq: the rest once more, fewer at a time
            rc, log = sh(["make", "-j4", "-k"] + targets, cwd=COQ, timeout=timeout, limit_mem=True)
    return rc == 0, log


def theorem_names(vfile):
    txt = open(vfile).read()
    return re.findall(r"^\s*(?:Theorem|Corollary)\s+([A-Za-z0-9_']+)", txt, re.M)


def check_properties_file(pid):
    """Compile Properties/<pid>.v by itself (its dependencies are built by
    coq_make) so that the Print Assumptions output is captured on every run."""
    vf = os.path.join(COQ, "Properties", pid + ".v")
    with Lock("coq.lock"):
        rc, log = sh(["coqc", "-Q", ".", "Apko", "-w", "-notation-overridden", vf], cwd=COQ, timeout=1800, limit_mem=True)
    names = theorem_names(vf)
    axioms = {}
    # Print Assumptions output: "Closed under the global context" or "Axioms:\n name : type ..."
    blocks = re.split(r"\n(?=Closed under the global context|Axioms:)", "\n" + log)
    pa = [b for b in blocks if b.startswith("Closed under") or b.startswith("Axioms:")]
    for i, n in enumerate(names):
        if i < len(pa):
            b = pa[i].strip()
            axioms[n] = "closed" if b.startswith("Closed under") else b
        else:
            axioms[n] = "not-printed"
    return rc == 0, log, names, axioms


FORBIDDEN = re.compile(r"\b(Admitted|admit|Axiom|Axioms|Parameter|Parameters|Conjecture|Conjectures|Admit Obligations|bypass_check|Unset Guard Checking|Unset Positivity Checking|Unset Universe Checking|type-in-type|impredicative-set)\b")


def dep_cone(targets):
    """.v files in the dependency cone of the given .vo targets (from coqdep's
    .Makefile.d); falls back to every file when the dependency file is missing."""
    dfile = os.path.join(COQ, ".Makefile.d")
    allv = [os.path.relpath(f, COQ) for f in glob.glob(os.path.join(COQ, "**", "*.v"), recursive=True)]
    if not os.path.exists(dfile):
        return allv
    deps = {}
    for line in open(dfile, errors="replace"):
        if ":" not in line:
            continue
        lhs, rhs = line.split(":", 1)
        outs = [x for x in lhs.split() if x.endswith(".vo")]
        ins = [x for x in rhs.split() if x.endswith(".vo")]
        for o in outs:
            deps.setdefault(o, set()).update(ins)
    seen, todo = set(), [t for t in targets]
    while todo:
        t = todo.pop()
        if t in seen:
            continue
        seen.add(t)
        todo.extend(deps.get(t, ()))
    cone = [t[:-1] for t in seen if os.path.exists(os.path.join(COQ, t[:-1]))]
    return cone or allv


def forbidden_scan(targets=None):
    bad = []
    files = dep_cone(targets) if targets else [os.path.relpath(f, COQ) for f in glob.glob(os.path.join(COQ, "**", "*.v"), recursive=True)]
    for rel in sorted(files):
        f = os.path.join(COQ, rel)
        txt = open(f, errors="replace").read()
        # strip comments (innermost first, repeated, handles nesting) and strings
        prev = None
        while prev != txt:
            prev = txt
            txt = re.sub(r"\(\*(?:(?!\(\*|\*\)).)*\*\)", " ", txt, flags=re.S)
        txt = re.sub(r'"(?:[^"]|"")*"', '""', txt)
        for m in FORBIDDEN.finditer(txt):
            bad.append("%s: %s" % (os.path.relpath(f, VERIF), m.group(0)))
        depth = 0
        for m in re.finditer(r"^\s*(Section|End|Module|Variable|Variables|Hypothesis|Hypotheses)\b", txt, re.M):
            w = m.group(1)
            if w == "Section":
                depth += 1
            elif w == "End":
                depth = max(0, depth - 1)
            elif w == "Module":
                depth += 1      # End closes modules as well
            elif depth == 0:
                bad.append("%s: %s outside a section" % (os.path.relpath(f, VERIF), w))
    return bad


# ------------------------------------------------------------ cases pipeline
def run_cases_dir(cdir, timeout=1800, jobs=16):
    """coqc every Cases_*.v in cdir (in parallel); returns (failures, errors)
    where failures = list of (index, [tags]) and errors = list of text."""
    shards = sorted(glob.glob(os.path.join(cdir, "Cases_*.v")))
    procs, fails, errs = [], [], []
    killed = []
    def harvest(p, f, last=False):
        out, _ = p.communicate(timeout=timeout)
        if p.returncode < 0 and not last:
            # killed by a signal (the kernel's OOM killer on a loaded machine), not rejected by Coq: once more, alone
            killed.append(f)
            return
        if p.returncode != 0:
            errs.append("%s: coqc failed\n%s" % (f, out[-3000:]))
            return
        fails.extend(parse_report(out))
    def start(f):
        return subprocess.Popen(["coqc", "-Q", COQ, "Apko", "-w", "-notation-overridden", f], cwd=cdir,
                                stdout=subprocess.PIPE, stderr=subprocess.STDOUT, text=True, errors="replace",
                                preexec_fn=_limit_mem)
    pending = list(shards)
    running = []
    while pending or running:
        while pending and len(running) < jobs:
            f = pending.pop(0)
            running.append((start(f), f))
        p, f = running.pop(0)
        try:
            harvest(p, f)
        except subprocess.TimeoutExpired:
            p.kill()
            errs.append("%s: coqc timeout" % f)
    attempt = 0
    while killed:
        attempt += 1
        again, killed[:] = list(killed), []
        time.sleep(15 * attempt)
        for f in again:
            p = start(f)
            try:
                harvest(p, f, last=(attempt >= 3))
            except subprocess.TimeoutExpired:
                p.kill()
                errs.append("%s: coqc timeout" % f)
    return fails, errs


def parse_report(out):
    """Parse 'R = [(3, ["a"; "b"]); ...] : list (N * list string)'."""
    m = re.search(r"\bR\s*=\s*(.*?)\n\s*:\s*list", out.replace("\r", ""), re.S)
    if not m:
        if re.search(r"\bR\s*=\s*\[\s*\]", out):
            return []
        raise RuntimeError("cannot parse coqc report:\n" + out[-2000:])
    body = " ".join(m.group(1).split())
    res = []
    for cm in re.finditer(r"\((\d+)(?:%N)?\s*,\s*\[(.*?)\]\s*\)", body):
        tags = re.findall(r'"((?:[^"]|"")*)"', cm.group(2))
        res.append((int(cm.group(1)), [t.replace('""', '"') for t in tags]))
    return res


# ---------------------------------------------------------- known findings
def load_findings(pid):
    known, fixed = [], []
    if not os.path.exists(FINDINGS):
        return known, fixed
    for line in open(FINDINGS):
        line = line.strip()
        if not line or line.startswith("#"):
            continue
        kind, _, rest = line.partition(":")
        kv = dict(re.findall(r"(\w+)=(\S+)", rest))
        if kv.get("property") != pid:
            continue
        desc = rest.split(" -- ", 1)[1] if " -- " in rest else rest
        kv["desc"] = desc.strip()
        (known if kind.strip() == "finding" else fixed).append(kv)
    return known, fixed


# ------------------------------------------------------------------ evidence
def write_evidence(pid, tier, seed, coverage, assumptions, wall, violations):
    os.makedirs(EVID, exist_ok=True)
    ev = {"property_id": pid, "tier": tier, "seed": seed, "level": "proof",
          "coverage": coverage, "assumptions": assumptions,
          "wall_s": round(wall, 2), "violations": violations}
    tmp = os.path.join(EVID, pid + ".json.tmp")
    json.dump(ev, open(tmp, "w"), indent=1, sort_keys=True)
    os.replace(tmp, os.path.join(EVID, pid + ".json"))


def write_replay(pid, name, obj):
    d = os.path.join(EVID, "replays")
    os.makedirs(d, exist_ok=True)
    p = os.path.join(d, "%s-%s.json" % (pid, name))
    json.dump(obj, open(p, "w"), indent=1, sort_keys=True, default=str)
    return p


# ------------------------------------------------------------ the main flow
def changed_functions(prop):
    """Functions (file:Recv.Func keys from goextract's funchash.json) in the
    files this property watches whose body hash differs from funchash.base.json."""
    watch = getattr(prop, "watch", ())
    if not watch:
        return []
    # evaluation runs of many patched copies (lib/harmless_process.sh) can switch the amplification off
    if os.environ.get("VERIF_NO_AMPLIFY") or os.path.exists(os.path.join(BUILD, "NO_AMPLIFY")):
        return []
    try:
        cur = json.load(open(os.path.join(BUILD, "funchash.json")))
        base = json.load(open(os.path.join(VERIF, "funchash.base.json")))
    except (OSError, ValueError):
        return []
    import fnmatch
    out = []
    for k in sorted(set(cur) | set(base)):
        if cur.get(k) != base.get(k):
            f = k.split(":", 1)[0]
            if any(fnmatch.fnmatch(f, w) for w in watch):
                out.append(k)
    return out


class Prop:
    """Per-property description; subclasses / instances override fields.

    stages: list of dict(name=..., cmd=<harness cmd>, args=lambda tier,seed:[...],
                          race=False)   each stage's harness writes a cases dir.
    A harness is invoked as:  <bin> -out <casesdir> -seed <seed> -tier <tier> [extra args]
    and may print lines 'IMPL-VIOLATION tag=<tag> <json>' for violations it finds
    by itself on outputs the Coq validators cannot see (labelled exploration), and
    'STAT <json>' lines merged into the evidence."""
    id = "C00"
    coq_targets = None          # default: Properties/<id>.vo Corr/<id>.vo
    stages = ()
    assumptions = ()
    trusted_extra = ()
    modelled_not_verified = ""
    quick_timeout = 900

    def targets(self):
        return self.coq_targets or ["Properties/%s.vo" % self.id, "Corr/%s.vo" % self.id]


def classify(pid, fails, impl_viol, known):
    """Split failures into known findings / new violations / mismatches."""
    ktags = {k["tag"]: k for k in known if "tag" in k}
    new_viol, known_hit, mism = [], {}, []
    for idx, tags in fails:
        v = [t for t in tags if t.startswith("viol:")]
        mm = [t for t in tags if t.startswith("mismatch:")]
        other = [t for t in tags if not t.startswith("viol:") and not t.startswith("mismatch:")]
        unlisted = [t for t in v if t[5:] not in ktags]
        if unlisted or other:
            new_viol.append((idx, tags))
        elif v and mm:
            # outside the envelope a listed tag counts as known only if the
            # faithful model reproduces the implementation's output
            new_viol.append((idx, tags))
        elif v:
            for t in v:
                known_hit.setdefault(t[5:], []).append(idx)
        elif mm:
            mism.append((idx, tags))
    for tag, desc in impl_viol:
        if tag in ktags:
            known_hit.setdefault(tag, []).append(desc)
        else:
            new_viol.append((desc, ["viol:" + tag]))
    return new_viol, known_hit, mism


def run_stage(prop, stage, tier, seed, extra_args=()):
    exe, err = build_go(stage["cmd"], race=stage.get("race", False))
    if err:
        return {"build_error": err}
    cdir = os.path.join(BUILD, "cases", prop.id, stage["name"])
    shutil.rmtree(cdir, ignore_errors=True)
    os.makedirs(cdir, exist_ok=True)
    args = [exe, "-out", cdir, "-seed", str(seed), "-tier", tier] + list(stage.get("args", lambda t, s: [])(tier, seed)) + list(extra_args)
    # a private temp directory per stage, removed afterwards (real builds leave
    # apko-temp-* directories behind)
    tmpd = os.path.join(BUILD, "tmp", "%s-%s-%d" % (prop.id, stage["name"], os.getpid()))
    shutil.rmtree(tmpd, ignore_errors=True)
    os.makedirs(tmpd, exist_ok=True)
    env = dict(GOENV, VERIF_DIR=VERIF, VERIF_REPO=REPO, TMPDIR=tmpd)
    t0 = time.time()
    try:
        rc, out = sh(args, cwd=cdir, env=env, timeout=stage.get("timeout", 3000))
    except subprocess.TimeoutExpired:
        shutil.rmtree(tmpd, ignore_errors=True)
        return {"harness_error": "harness timeout"}
    finally:
        shutil.rmtree(tmpd, ignore_errors=True)
    impl_viol, stats = [], {}
    for line in out.splitlines():
        if line.startswith("IMPL-VIOLATION "):
            m = re.match(r"IMPL-VIOLATION tag=(\S+)\s*(.*)", line)
            impl_viol.append((m.group(1), m.group(2)))
        elif line.startswith("STAT "):
            try:
                stats.update(json.loads(line[5:]))
            except ValueError:
                pass
    if rc != 0:
        return {"harness_error": out[-4000:], "impl_viol": impl_viol}
    r = {"impl_viol": impl_viol, "stats": stats, "harness_s": round(time.time() - t0, 2), "cdir": cdir}
    ixp = os.path.join(cdir, "index.json")
    if os.path.exists(ixp):
        r["index"] = json.load(open(ixp))
        t1 = time.time()
        fails, errs = run_cases_dir(cdir)
        r["coq_s"] = round(time.time() - t1, 2)
        r["fails"], r["coq_errors"] = fails, errs
    else:
        r["index"] = {"evaluations": 0, "distinct_nontrivial": 0, "distribution": {}, "descs": []}
        r["fails"], r["coq_errors"] = [], []
    return r


def main_check(prop, argv):
    import argparse
    ap = argparse.ArgumentParser()
    ap.add_argument("--tier", default=os.environ.get("VERIF_TIER", "quick"))
    ap.add_argument("--replay")
    ap.add_argument("--seed", type=int, default=int(os.environ.get("VERIF_SEED", "1") or 1))
    a = ap.parse_args(argv)
    tier = a.tier if a.tier in ("quick", "thorough") else "quick"
    seed = a.seed
    t0 = time.time()
    pid = prop.id
    known, fixed = load_findings(pid)
    broken = []          # proof / tie failures: (what, detail)
    out_lines = []

    # 1. translator
    err = run_goextract()
    if err:
        broken.append(("translator", err[-3000:]))

    # 1b. change-directed amplification: if the body of a function in a file this
    # property watches differs from the recorded base, run the correspondence at
    # thorough size even in the quick tier (a changed hash raises nothing by itself)
    amplified = changed_functions(prop)
    stage_tier = "thorough" if amplified else tier

    # 2. proofs
    ok, log = coq_make(prop.targets(), clean=False)
    if not ok:
        broken.append(("proof-build", log[-6000:]))
    pok, plog, names, axioms = (False, "", [], {})
    if ok:
        pok, plog, names, axioms = check_properties_file(pid)
        if not pok:
            broken.append(("properties-file", plog[-4000:]))
    else:
        names = theorem_names(os.path.join(COQ, "Properties", pid + ".v"))
    bad = forbidden_scan(prop.targets())
    if bad:
        broken.append(("forbidden-construct", "\n".join(bad)))
    nonstd = {n: a for n, a in axioms.items() if a not in ("closed",)}
    coqchk_log = None
    if tier == "thorough" and ok and pok and os.environ.get("VERIF_NO_COQCHK") != "1":
        with Lock("coq.lock"):
            rc, coqchk_log = sh(["coqchk", "-silent", "-o", "-Q", ".", "Apko", "Apko.Properties." + pid], cwd=COQ, timeout=3000, limit_mem=True)
        if rc != 0:
            broken.append(("coqchk", coqchk_log[-3000:]))

    # 3. correspondence + validators on implementation outputs
    stage_results = []
    search_tier = tier
    def run_all(t, extra=()):
        rs = []
        for st in prop.stages:
            if t == "quick" and st.get("thorough_only"):
                continue
            r = run_stage(prop, st, t, seed, extra)
            r["stage"] = st["name"]
            rs.append(r)
        return rs
    stage_results = run_all(stage_tier, ["-replay", a.replay] if a.replay else [])
    def collect(rs):
        nv, kh, mm, errs = [], {}, [], []
        for r in rs:
            if "build_error" in r:
                errs.append(("harness-build", r["build_error"][-3000:])); continue
            if "harness_error" in r:
                errs.append(("harness-run:" + r["stage"], r["harness_error"]))
            if r.get("coq_errors"):
                errs.append(("cases-coqc:" + r["stage"], "\n".join(r["coq_errors"])[-3000:]))
            v, k, m = classify(pid, r.get("fails", []), r.get("impl_viol", []), known)
            nv += [(r, i, t) for i, t in v]
            mm += [(r, i, t) for i, t in m]
            for tag, hits in k.items():
                kh.setdefault(tag, []).extend(hits)
        return nv, kh, mm, errs
    new_viol, known_hit, mism, errs = collect(stage_results)
    broken += errs
    if mism:
        r, i, t = mism[0]
        broken.append(("correspondence", "stage %s case %d: %s (and %d more)" % (r["stage"], i, t, len(mism) - 1)))

    # 4. if something no longer checks and no failing input yet, search deeper
    searched = False
    if broken and not new_viol and stage_tier == "quick" and not a.replay:
        searched = True
        deep = run_all("thorough")
        v2, k2, m2, e2 = collect(deep)
        new_viol += v2
        stage_results += [dict(r, stage=r["stage"] + "(search)") for r in deep]

    # 5. verdict
    def desc_of(r, i):
        if isinstance(i, int):
            ds = r.get("index", {}).get("descs", [])
            return ds[i] if i < len(ds) else None
        return i
    rc = 0
    for tag, hits in sorted(known_hit.items()):
        k = [x for x in known if x.get("tag") == tag][0]
        out_lines.append("KNOWN-FINDING: property=%s %s [%s; %d case(s) this run]" % (pid, k["desc"], k.get("id", tag), len(hits)))
    if new_viol:
        r, i, t = new_viol[0]
        rp = write_replay(pid, "violation", {
            "property": pid, "stage": r["stage"], "seed": seed, "tier": tier, "case_index": i, "tags": t,
            "input": desc_of(r, i),
            "how_to_replay": "./check %s --tier %s --seed %d   (case %s of stage %s); the input above is the failing case" % (pid, tier, seed, i, r["stage"]),
            "also_failing": [(rr["stage"], ii, tt) for rr, ii, tt in new_viol[1:20]],
            "no_longer_checks": [b[0] for b in broken]})
        out_lines.append("VIOLATION property=%s replay=%s" % (pid, rp))
        getattr(prop, "post_replay", lambda _rp: None)(rp)  # optional per-property hook (C17: shrink the failing sequence)
        rc = 1
    elif broken:
        rp = write_replay(pid, "broken", {
            "property": pid, "seed": seed, "tier": tier,
            "no_longer_checks": [{"what": w, "detail": d} for w, d in broken],
            "theorems": names, "searched_thorough": searched,
            "first_mismatch": (lambda r, i, t: {"stage": r["stage"], "case_index": i, "tags": t, "input": desc_of(r, i)})(*mism[0]) if mism else None})
        out_lines.append("VIOLATION property=%s replay=%s no-failing-input-found" % (pid, rp))
        rc = 1

    # 6. evidence
    evals = sum(r.get("index", {}).get("evaluations", 0) for r in stage_results)
    distinct = sum(r.get("index", {}).get("distinct_nontrivial", 0) for r in stage_results)
    samples = []
    for r in stage_results:
        ds = r.get("index", {}).get("descs", [])
        for j in (0, len(ds) // 2, len(ds) - 1):
            if ds and 0 <= j < len(ds):
                samples.append({"stage": r["stage"], "case": j, "input": ds[j]})
    discharged = len([n for n in names if axioms.get(n) not in (None, "not-printed")]) if (ok and pok) else 0
    cov = {
        "obligations": len(names), "discharged": discharged,
        "theorems": names, "axioms_per_theorem": axioms,
        "checker_cmd": "make -C coq %s && coqc -Q coq Apko coq/Properties/%s.v%s" % (" ".join(prop.targets()), pid, " && coqchk -silent -o Apko.Properties." + pid if coqchk_log is not None else ""),
        "trusted_base": KERNEL_TB + list(prop.trusted_extra),
        "modelled_not_verified": prop.modelled_not_verified,
        "evaluations": evals, "distinct_nontrivial": distinct,
        "rule": getattr(prop, "rule", "see stages"),
        "samples": samples or [{"note": "no generated cases; obligations are the theorems listed"}],
        "stages": [{"stage": r["stage"], "evaluations": r.get("index", {}).get("evaluations", 0),
                    "distinct_nontrivial": r.get("index", {}).get("distinct_nontrivial", 0),
                    "distribution": r.get("index", {}).get("distribution", {}),
                    "extra": r.get("index", {}).get("extra"),
                    "stats": r.get("stats"), "harness_s": r.get("harness_s"), "coq_s": r.get("coq_s"),
                    "failing_cases": len(r.get("fails", []))} for r in stage_results],
        "correspondence_note": "generated cases are differential testing of model vs implementation and validator runs on implementation outputs; they are not proof obligations",
        "known_findings_reproduced": sorted(known_hit.keys()),
        "amplified_by_changed_functions": amplified[:20],
        "broken": [b[0] for b in broken],
        "forbidden_scan": "clean" if not bad else bad,
    }
    if coqchk_log is not None:
        cov["coqchk_tail"] = coqchk_log[-1500:]
    write_evidence(pid, tier, seed, cov, list(prop.assumptions), time.time() - t0, len(new_viol) + (1 if (broken and not new_viol) else 0))
    for l in out_lines:
        print(l)
    if rc == 0:
        print("OK property=%s tier=%s theorems=%d/%d cases=%d wall=%.1fs" % (pid, tier, discharged, len(names), evals, time.time() - t0))
    else:
        for w, d in broken[:3]:
            print("--- no longer checks: %s\n%s" % (w, d[-1500:]))
    return rc
