import vlib

class P(vlib.Prop):
    id = "C01"
    rule = ("matrix stage (exploration, labelled as such): the apko CLI built from the tree under test builds ONE synthetic configuration per group "
            "(about 35 packages over 14 origins, three origin groups of equal size, a replaces edge across origins, xattrs, hard links, symlinks, empty "
            "directories, setuid/setgid/sticky bits, non-root owners, busybox links, accounts, path mutations, files above pgzip's 1 MiB block, two "
            "architectures, layering budget 4, SBOM on) under different GOMAXPROCS (1,2,16), TMPDIR, cwd, TZ, umask (000,022,077), cache state "
            "(disabled, cold, warm, --offline), with and without SOURCE_DATE_EPOCH, as tarball / OCI layout / apko lock / build --lockfile, and repeated "
            "later in time; the sha256 of every layer, config, manifest, index, SBOM, lock file, tarball and layout tree is compared with the group's "
            "reference inside Coq by the verified validator `differing`. quick: 11 builds of one configuration; thorough: 36 cells x 3 repetitions x 3 "
            "configurations (multi-layer, single-layer, single-arch budget-1 with a service bundle). installif stage: configurations built to trigger "
            "what was finding C01-F1 (fixed by c03e0c0): nine install_if universes (flat, chains three deep, several triggers, packages before their triggers, versioned name=version entries, a bare-name list hiding a versioned one) resolved 60/400 times in process "
            "and 8/24 identical CLI builds of one of them - every observed install order must EQUAL the order of Model/Resolver.v (resolve; for the CLI the second, locked resolution too) and all runs and digests must agree. canon stage: the canonicaliser, build-date and install-schedule models against the "
            "real functions (SetWorld, build.New, BuildImageFromLayers, GenerateIndex, tarfs ReadDir, groupByOriginAndSize, GetBuildDateEpoch, "
            "InstallPackages behind a server that releases packages in a scripted order, the resolver; groupByOriginAndSize is also called six more times per case on reshuffled input - one answer). "
            "matrix also builds a two-architecture configuration whose newest package date differs per architecture, without SOURCE_DATE_EPOCH, while one architecture's packages are served late (each in turn). "
            "baseimage stage: the repository's image-on-a-base-image test configuration through build.New + BuildLayers, as configured and with appended build/runtime repositories, twice per architecture under different temp directories; judged in Coq: etc/apk/repositories after build.New against the model of initializeApk (lists read from the source), the file in the layer against the generated build steps, nothing of the temp directory in the image, both runs equal. "
            "every matrix build that shows an index: its org.opencontainers.image.created against the generated multi-architecture date fold over the image manifests' dates. canon also runs InstallPackages under GOMAXPROCS 1, 2, 3 (the limit of the goroutine group): requests must arrive as the limited model allows, the call must return. history stage (wave 3): the same build with a history behind it against that build in a FRESH PROCESS with fresh directories - several images built in one process through the library (an image whose world constrains a version / picks a provider / excludes a package first, then the image under test, twice), "
            "a temp directory (WithTempDir) or tarball path (WithTarball) that holds a longer (and a shorter) earlier layer, `apko build` onto an out.tar left by a bigger build (regression replay of C01-F3, fixed by 8ccf1a0) and by the same build; installed packages, layer digest, size in the descriptor, length and sha256 of the blob, config, manifest, tarball bytes compared. "
            "matrix also builds against two repositories that offer the same name and version as different files while each repository's index is served late in turn. A build case is non-trivial when it is not "
            "the reference of its group; distinct = distinct command lines / case terms.")
    stages = (
        dict(name="matrix", cmd="c01", args=lambda t, s: ["-stage", "matrix"], timeout=3400),
        dict(name="installif", cmd="c01", args=lambda t, s: ["-stage", "installif"]),
        dict(name="canon", cmd="c01", args=lambda t, s: ["-stage", "canon"]),
        dict(name="baseimage", cmd="c01", args=lambda t, s: ["-stage", "baseimage"]),
        dict(name="history", cmd="c01", args=lambda t, s: ["-stage", "history"]),
    )
    watch = ("pkg/build/*.go", "pkg/build/oci/*.go", "pkg/tarfs/fs.go", "pkg/apk/apk/world.go", "pkg/apk/apk/installed.go",
             "pkg/apk/apk/implementation.go", "pkg/apk/apk/repo.go", "pkg/apk/apk/index.go", "pkg/apk/apk/shameful_global_caches.go", "pkg/sbom/generator/spdx/spdx.go", "internal/cli/build.go")
    assumptions = (
        "sort.Strings / sort.Slice / slices.SortFunc / sets.List return a sorted permutation of their input (their algorithms are not modelled; the theorems hold for ANY function with that contract)",
        "expandPackage is a function of the package alone (cache transparency at byte level is explored by the matrix, proved for the protocol in C19)",
        "map keys are distinct (environment names, architectures, directory entry names, directoryChildren keys)",
        "layer groups are non-empty, pairwise disjoint sets of uniquely named packages (so their tiebreakers differ)",
        "instants are integers; time.Time.After is >",
        "errgroup.Group.SetLimit(n): Go blocks while n goroutines of the group run (the group's semantics are modelled, not its code); GOMAXPROCS >= 1",
        "C10's nine read-only calls (BuildSteps.pure_calls) do not write etc/apk/repositories; every other step is arbitrary in c01_repositories_file_whatever_the_other_steps_do",
    )
    level_text = ("Theorems c01_canon_* (world, packages, repositories, keyring, environment, architectures, directory listings, installed-db directory keys, "
                  "layer groups: output independent of input order / map iteration order, sorted, same elements), c01_keyring_schedule, c01_install_schedule "
                  "(InstallPackages: same final state for EVERY completion order and interleaving) with c01_install_limit_only_removes_schedules / _removes / _cannot_block / _of_one_blocks_refuted "
                  "(g.SetLimit(GOMAXPROCS + k), k read from the source: every run of the limited group is one of those schedules, which ones the limit removes, it cannot block, a limit of one would), "
                  "c01_bde / c01_bde_multiarch (stated about the CODE of the two date loops as goextract reads it - which values are compared, assigned, returned - run by an interpreter: SOURCE_DATE_EPOCH "
                  "or the maximum, for every completion order of the architectures; c01_bde_multiarch_last_finisher_refuted: the same loop comparing with the configured date depends on the order), "
                  "c01_repositories_file_independent_of_tempdir (initializeApk's lists read from the source, C10's generated build steps for every valuation of their conditions: the build-time file names the base image's temp path, "
                  "the serialised one is the runtime list whatever that path; _without_rewrite_refuted; c01_repositories_file_whatever_the_other_steps_do: the other steps may do ANYTHING to the file or fail - SetRepositories is the last step before the serialiser that may change the filesystem, computed over the generated step lists for every valuation) are proved for all inputs about executable models whose sort/set calls are re-checked in the source on every run "
                  "(Generated/C01Calls.v, c01_source_calls_present). c01_resolve_order holds in full since fix c03e0c0, stated over Model/Resolver.v's install_if loop (versioned entries included; one list for every universe and dependency list, "
                  "no fuel exhaustion, no failure; formerly refuted, finding C01-F1); c01_tarball_order is REFUTED with a witness (finding C01-F2; repair proposed in fixes/C01-F2.patch) and its strongest partial form proved. Wave 3: c01_layer_file_independent_of_earlier_content (the flags of the calls that open the layer file are read from the source: truncating or new at every site), "
                  "c01_output_file_independent_of_earlier_content (BuildIndex's open flags, read from the source, truncate since fix 8ccf1a0 - was finding C01-F3; c01_output_file_before_fix_refuted is the labelled hypothetical for the old flags), c01_index_order_schedule (GetRepositoryIndexes stores by position: repository order for every completion order; _by_arrival_refuted), c01_caches_hand_out_copies (C08's generated facts). pgzip thread-count independence, goroutine scheduling, umask/TMPDIR/TZ/cwd influence and byte-level cache "
                  "transparency are NOT proved: they are explored by the build matrix.")
    level_note = ("partial: proof covers the order/schedule/date logic; exploration (repeated real builds compared by sha256) covers pgzip, the scheduler, the host environment "
                  "and the cache. trusted: Coq kernel, goextract, Go harness/printer, sha256 of the harness; modelled not verified: the Go text of the modelled functions")
    design_ref = "DESIGN.md 7 C01"
    modelled_not_verified = ("SetWorld, initializeApk/postBuildSetApk (sets.List), InitKeyring's concurrent writes, BuildImageFromLayers' environment, generateIndexWithMediaType / "
                             "GenerateIndexSBOM architecture order, tarfs ReadDir, sortTarHeaders' directory keys, groupByOriginAndSize's final sort and tiebreaker, "
                             "InstallPackages' goroutine structure and errgroup's limit, and ggcr's "
                             "tarball.MultiWrite member order are modelled by hand (Model/Repro.v, Model/Repro2.v); the two date loops (GetBuildDateEpoch, buildImageComponents), initializeApk's repository lists and appends, "
                             "the step lists of the build (C10's generator) and the argument of SetLimit are READ from the source and interpreted; the install_if loop is Model/Resolver.v's; presence, position and comparator of each sort/set call and the absence of "
                             "time.Now in image-producing files are re-read from the source on every run; pgzip, archive/tar, go-containerregistry, the Go scheduler and the "
                             "host are exercised by the matrix only")

PROP = P()
