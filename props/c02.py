import vlib

class P(vlib.Prop):
    id = "C02"
    rule = ("stage c02: a corpus of hand-picked universes first (every known-finding replay C02-F1..F6, the shapes of repo_test.go: several providers "
            "with priorities, cycles, self-dependencies, ! conflicts, origin/installed-version preference, pinned repositories, all six operators, "
            "install_if with several/chained/versioned triggers (the replays of the fixed findings C08-F1/F3, chains through packages listed before their triggers, name=version keys right / wrong / "
            "shadowed by an unversioned key, entries with other operators and on provided names, two versions under one key), a member excluded by another member's conflict entry and the locks of that result (C09-F6), a dependency with an "
            "unknown operator), then three generated streams of in-memory repository universes (3-8 names in the quick "
            "tier, 3-12 in the thorough tier, 1-4 versions per name, 1-3 indexes some pinned, versioned and unversioned provides of virtual and real names, "
            "provider priorities, shared origins, cycles, ! conflicts, so: names, duplicates across repositories): (1) the envelope of c02_closed_partial by "
            "construction, (2) general universes, 35% with 1-8 install_if packages (single, double and triple triggers, name=version and other operators, chains x-doc -> x-doc-more, entries on "
            "provided names, two versions under one key, packages placed before their triggers), (3) malformed: "
            "unparsable versions and constraint strings, missing names, !requests. Five worlds per universe (1-4 requests, all six operators, pins, virtuals, "
            "duplicates). Every world is resolved by the REAL apk.NewPkgResolver(...).GetPackagesWithDependencies on fresh index objects (allArchs alternately "
            "{arch: indexes} and nil); universes with install_if packages are resolved four more times and every answer must be the first one (a difference is reported and "
            "recorded as a run of its own); the result is the ordered list of package identities (position in the flattened universe) or 'error'. In Coq each case "
            "must EQUAL Model/Resolver.v (a function of universe, world and initial disqualification set: the install_if loop walks the dependency list by index since fix "
            "c03e0c0, no schedule is searched any more) and the verified validator closed_check runs on the IMPLEMENTATION's list. A validator failure "
            "inside the envelope is tagged in-envelope/... and is always a VIOLATION. A case is non-trivial when some world resolves to two or more packages; "
            "distinct = distinct case terms.")
    stages = (
        dict(name="c02", cmd="c02", args=lambda t, s: ["-stage", "c02"]),
    )
    coq_targets = ["Properties/C02.vo", "Corr/C02.vo"]
    watch = ("pkg/apk/apk/repo.go", "pkg/apk/apk/version.go")
    assumptions = (
        "a universe is the list of all packages of all indexes in (index, package) order with the index's pin name and repository URI attached to each package; package identity = position in that list (Go: *RepositoryPackage pointer)",
        "the two process-wide caches are not part of this model (fresh index objects per case; they belong to C08): dq0 is what a fresh disqualifyDifference returns",
        "Go map iteration: (1) newPkgResolver's provider order for one name across different package names is modelled as first-occurrence order; it is observable only through bestPackage on candidates whose versions do not parse, which the generators avoid; (2) keys(options) only decides WHICH error is returned, errors are observed as a boolean; (3) the install_if loop of GetPackageWithDependencies no longer ranges over a map (fix c03e0c0): no schedule parameter is left",
        "the `conflicts []string` result and error texts are not observed",
        "cachedParseVersion / cachedResolvePackageNameVersionPin are memo tables of pure functions; the model parses each string once when the resolver is built",
        "version parsing, comparison and constraint parsing are the C03 model (Model/Version.v), tied to version.go by C03's own check",
    )
    level_text = ("Theorems c02_nodup, c02_members_from_universe, c02_failure_is_error, c02_termination, c02_no_panic hold for every universe, world and initial disqualification set "
                  "(unbounded) of an executable model of repo.go + filterPackages; c02_validator_decides proves the validator that is run on the "
                  "implementation's results; c02_closed is REFUTED by five kernel-checked witnesses (findings C02-F1..F5, each replayed on the real code) and "
                  "c02_closed_partial proves that INSIDE the envelope (no install_if, no dependency on a self-provided name, one provider per name, version operators only on "
                  "package names) a successful result is closed in the full sense of the Spec — all four clauses, the closure of the dependencies of every member included "
                  "(invariant of getPackageDependencies over selected / dq / parents / the returned list, Proofs/ResolveClosure2.v); the model is tied to the code by differential "
                  "comparison of ordered install lists.")
    level_note = ("trusted: Coq kernel, goextract (version tables/regexes), Go harness/printer; modelled not verified: the Go text of repo.go/version.go:filterPackages; "
                  "dependency closure inside the envelope is proved of the model and, independently, checked per implementation output by the verified validator "
                  "(any failure there is a VIOLATION); conflict entries (!name) are not requirements of Closed: a result may hold a package together with a member that excludes it "
                  "(see C09-F6); correspondence is differential testing, not proof")
    design_ref = "DESIGN.md 7 C02, Appendix A.1"
    modelled_not_verified = ("newPkgResolver, filterPackages, comparePackages (compare==nil stages), bestPackage, constrain, disqualifyProviders, disqualifyConflicts, "
                             "conflictingVersion, pick, nextPackage, resolvePackage, getPackageDependencies, GetPackageWithDependencies, GetPackagesWithDependencies "
                             "are modelled by hand in Model/Resolver.v; the operator tables, version regexes and enum values they use are regenerated from version.go on every run")

PROP = P()
