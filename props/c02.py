import vlib

class P(vlib.Prop):
    id = "C02"
    rule = ("stage c02: a corpus of hand-picked universes first (every known-finding replay C02-F1..F6, the shapes of repo_test.go: several providers "
            "with priorities, cycles, self-dependencies, ! conflicts, origin/installed-version preference, pinned repositories, all six operators, "
            "install_if with several/chained/versioned triggers (the replays of the fixed findings C08-F1/F3, chains through packages listed before their triggers, name=version keys right / wrong / "
            "shadowed by an unversioned key, entries with other operators and on provided names, two versions under one key), a member excluded by another member's conflict entry and the locks of that result (C09-F6), a dependency with an "
            "unknown operator), then three generated streams of in-memory repository universes (3-8 names in the quick "
            "tier, 3-12 in the thorough tier, 1-4 versions per name, 1-3 indexes some pinned, versioned and unversioned provides of virtual and real names, "
            "provider priorities, shared origins, cycles, ! conflicts, so: names, duplicates across repositories): (1) the envelope of c02_closed_partial by "
            "construction, (2) general universes, 35% with 1-8 install_if packages (single, double and triple triggers, name=version and other operators, chains x-doc -> x-doc-more, entries on "
            "provided names, two versions under one key, packages placed before their triggers), (3) malformed: "
            "unparsable versions and constraint strings, missing names, !requests. Five worlds per universe (1-4 requests, all six operators, pins, virtuals, "
            "duplicates). Every world is resolved by the REAL apk.NewPkgResolver(...).GetPackagesWithDependencies on fresh index objects (allArchs alternately "
            "{arch: indexes} and nil); universes with install_if packages are resolved four more times and every answer must be the first one (a difference is reported and "
            "recorded as a run of its own); the result is the ordered list of package identities (position in the flattened universe) or 'error'. In Coq each case "
            "must EQUAL Model/Resolver.v (a function of universe, world and initial disqualification set: the install_if loop walks the dependency list by index since fix "
            "c03e0c0, no schedule is searched any more) and the verified validator closed_check runs on the IMPLEMENTATION's list. A validator failure "
            "inside the envelope is tagged in-envelope/... and is always a VIOLATION. A case is non-trivial when some world resolves to two or more packages; "
            "distinct = distinct case terms. Session 6: a fourth generated stream aims at the WIDER envelope of c02_closed_multi_version (1-4 versions per name in ascending apk order, "
            "virtuals provided by several versions of one name with growing / shared / no provided version, versioned dependencies and requests that the best version passes, "
            "unversioned and below-every-version conflict entries, several unpinned repositories, shuffled index order; practically every run of it is inside the envelope, ~93% succeed); "
            "there a closure failure or a member that is not the winner of its name is tagged in-multi-envelope/... and is always a VIOLATION. The conflict clause "
            "(no member excluded by a conflict entry of another member) is validated on every implementation result (tags conflict/..., findings C02-F7/F7b/F7c). New corpus cases: C02-F1 "
            "through the origin preference and through a pinned sibling (the witnesses of clause 4), the Example universe of the wider envelope, conflict entries read too late / versioned / on a "
            "provided name / self-excluding, conflict entries against and of install_if members. The harness prints the distribution of universe shapes (versions per name, provider names and "
            "packages per provided name, dependency and request operators, conflict entries, install_if, pins, cycles, self-dependencies, duplicates, priorities) and of outcomes (ok by result "
            "size, error by innermost cause and by request/dependency) into the evidence and refuses to run if a required shape is missing in the tier.")
    stages = (
        dict(name="c02", cmd="c02", args=lambda t, s: ["-stage", "c02"]),
    )
    coq_targets = ["Properties/C02.vo", "Corr/C02.vo"]
    watch = ("pkg/apk/apk/repo.go", "pkg/apk/apk/version.go")
    assumptions = (
        "a universe is the list of all packages of all indexes in (index, package) order with the index's pin name and repository URI attached to each package; package identity = position in that list (Go: *RepositoryPackage pointer)",
        "the two process-wide caches are not part of this model (fresh index objects per case; they belong to C08): dq0 is what a fresh disqualifyDifference returns",
        "Go map iteration: (1) newPkgResolver's provider order for one name across different package names is modelled as first-occurrence order; it is observable only through bestPackage on candidates whose versions do not parse, which the generators avoid; (2) keys(options) only decides WHICH error is returned, errors are observed as a boolean; (3) the install_if loop of GetPackageWithDependencies no longer ranges over a map (fix c03e0c0): no schedule parameter is left",
        "the `conflicts []string` result and error texts are not observed",
        "cachedParseVersion / cachedResolvePackageNameVersionPin are memo tables of pure functions; the model parses each string once when the resolver is built",
        "version parsing, comparison and constraint parsing are the C03 model (Model/Version.v), tied to version.go by C03's own check",
    )
    level_text = ("Session 6: c02_closed_multi_version — inside the wider envelope menvelope_b (several versions per name and several packages of one name per virtual; nine named, "
                  "decidable clauses on (universe, world); initial disqualification set closed under 'a winner takes its siblings along') a successful result is Closed and every member is the "
                  "winner of its name; c02_multi_envelope_minus_clause_refuted shows five of the clauses necessary by replays of F2, F1c, F1 (origin / pinned sibling), F4, F1, F5, F1b. Conflict "
                  "entries: c02_conflict_validator_decides, c02_conflict_free_refuted (finding C02-F7), c02_conflict_entries_forward_partial and c02_disqualified_never_chosen (entries are "
                  "honoured forward). c02_disqualify_conflicts_exact, c02_conflicting_version_table, c02_versioned_provide_excludes_other_providers, c02_pick, c02_selected_monotone state what "
                  "disqualifyConflicts / conflictingVersion / pick guarantee, and c02_translated_functions_are_the_model + c02_translated_constrain_is_the_model tie exactly these FOUR functions "
                  "(constrain too: c02_code_constrain_covers) to the Go text (goextract translates them statement by statement on every run). Earlier: theorems c02_nodup, c02_members_from_universe, c02_failure_is_error, c02_termination, c02_no_panic hold for every universe, world and initial disqualification set "
                  "(unbounded) of an executable model of repo.go + filterPackages; c02_validator_decides proves the validator that is run on the "
                  "implementation's results; c02_closed is REFUTED by five kernel-checked witnesses (findings C02-F1..F5, each replayed on the real code) and "
                  "c02_closed_partial proves that INSIDE the envelope (no install_if, no dependency on a self-provided name, one provider per name, version operators only on "
                  "package names) a successful result is closed in the full sense of the Spec — all four clauses, the closure of the dependencies of every member included "
                  "(invariant of getPackageDependencies over selected / dq / parents / the returned list, Proofs/ResolveClosure2.v); the model is tied to the code by differential "
                  "comparison of ordered install lists.")
    level_note = ("trusted: Coq kernel, goextract (version tables/regexes), Go harness/printer; modelled not verified: the Go text of repo.go/version.go:filterPackages; "
                  "dependency closure inside the envelope is proved of the model and, independently, checked per implementation output by the verified validator "
                  "(any failure there is a VIOLATION), likewise inside the wider envelope; conflict entries (!name) are not requirements of Closed but a clause of their own (ConflictFree), "
                  "which the code violates (C02-F7, cf. C09-F6) and honours only forward (proved); several provider NAMES under one virtual remain outside both envelopes; "
                  "conflictingVersion, pick, disqualifyConflicts and constrain are translated from the source and proved equal to the model, the rest of repo.go is modelled by hand; "
                  "correspondence is differential testing, not proof")
    design_ref = "DESIGN.md 7 C02, Appendix A.1"
    modelled_not_verified = ("newPkgResolver, filterPackages, comparePackages (compare==nil stages), bestPackage, constrain, disqualifyProviders, nextPackage, resolvePackage, getPackageDependencies, GetPackageWithDependencies, GetPackagesWithDependencies "
                             "are modelled by hand in Model/Resolver.v (conflictingVersion, pick, disqualifyConflicts and constrain too, but those four are also translated from the source by goextract and proved equal to the model: Proofs/ResolveGenerated.v); the operator tables, version regexes and enum values they use are regenerated from version.go on every run")

PROP = P()
