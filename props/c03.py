import vlib

class P(vlib.Prop):
    id = "C03"
    watch = ("pkg/apk/apk/version.go",)
    rule = ("parse: corpus of corners, strings derived from the grammar with every optional part toggled and numbers from {0,1,9,10,007,2^31,2^63-1,2^63,10^20-1}, "
            "and a malformed stream (1-2 byte-level edits of valid strings incl. upper case, doubled dots, NUL, non-ASCII, newline); "
            "compare: corner pairs, the full pre x pre and post x post suffix grids, and pairs that differ in exactly one or two fields, each compared in both directions; "
            "constraint: constraints assembled from known parts (name, operator, version, pin) against neighbouring versions - names from seven fixed strings and, half of the time, from the WHOLE class the grammar admits in a name "
            "(every byte except @ = > < ~: [ ] { } ! $ , % & ' ( ) * ; ? \\ ^ ` | space, quotes, control and non-ASCII bytes; corpus: 25 such names incl. the real-world cmd:[ under every operator) -, plus operator runs and odd shapes; "
            "resolve: raw ResolvePackageNameVersionPin on malformed constraint strings (names from the same class); a string that has clean parts must come back as those parts (validator independent of packageNameRegex); "
            "filter: one candidate (own version + provides) through the real filterPackages, the resolver's operator dispatch: equal versions spelled differently under every operator, "
            "neighbouring versions, provided versions, malformed versions, constraint and provide names from the whole name class; "
            "soname: a so: provide against a so: constraint, both through ResolvePackageNameVersionPin (the 0. rescaling of versions without a release suffix): full grid of 5 versions x {none,-r0,-r1,-r3,-r10} on both sides "
            "under every operator - same-kind pairs must compare as their versions do (regression replays of the fixed defect C03-F2 included) -, neighbouring versions, malformed versions; "
            "pins: candidate LISTS (0-5 candidates in three repositories, pinned to none/edge/local/testing, one in five disqualified, optional provides) through the real filterPackages with the dq map, "
            "allowPin, preferPin and an installed package (the same URL as a candidate, or another), under every operator and for bare names, plus malformed versions: whoever passes must pass by a version the order accepts, "
            "an unpinned and not disqualified candidate passes exactly when the order says so, nothing disqualified passes, input order is kept. Non-trivial = non-empty / a != b; distinct = distinct case terms.")
    stages = (
        dict(name="parse", cmd="c03", args=lambda t, s: ["-stage", "parse"]),
        dict(name="compare", cmd="c03", args=lambda t, s: ["-stage", "compare"]),
        dict(name="constraint", cmd="c03", args=lambda t, s: ["-stage", "constraint"]),
        dict(name="resolve", cmd="c03", args=lambda t, s: ["-stage", "resolve"]),
        dict(name="filter", cmd="c03", args=lambda t, s: ["-stage", "filter"]),
        dict(name="soname", cmd="c03", args=lambda t, s: ["-stage", "soname"]),
        dict(name="pins", cmd="c03", args=lambda t, s: ["-stage", "pins"]),
    )
    assumptions = (
        "Go's regexp engine implements the language of the AST that regexp/syntax parses (the matcher in Base/Regex.v is verified against that AST's semantics, bytes instead of runes; goextract refuses classes where the two differ)",
        "strconv.Atoi on a digit string fails exactly above MaxInt64 (modelled, checked by the correspondence)",
        "the tokenizer that assigns digits to fields is hand-written (Model/Version.v) and tied to ParseVersion by comparing all seven parsed fields",
    )
    level_text = ("Theorems: the apk order is a total order (c03_total_order); the model's CompareVersions, the six operators and ~ agree with it for all parsed versions "
                  "(c03_compare_is_spec, c03_operators, c03_tilde) — proved through finite checks over ALL rows of the enum constants / switch tables regenerated from version.go; "
                  "the source regex is the apk grammar (c03_grammar_is_apk, by computation on the regenerated AST with a verified matcher); accepted <=> grammatical and components fit int64 "
                  "(partial), with the unconditional iff refuted by a witness (finding C03-F1). On STRINGS: every accepted version decodes to a spec tuple (c03_parsed_versions_decode); the relation "
                  "CompareVersions induces on accepted strings is a total preorder whose equivalence is 'same parsed version', not string equality - 1.01 ~ 1.1 (c03_preorder_on_strings, "
                  "c03_leading_zero_equivalent); SatisfiedBy on a constraint whose version parses is the spec's operator on the two tuples, ~ included, and from the constraint string for clean parts "
                  "(c03_operators_on_strings, c03_tilde_on_strings, c03_constraint_string_is_spec, c03_satisfied_by_edges); the resolver's own dispatch filterPackages lets a candidate through exactly when its own or a provided version "
                  "stands in the spec's relation to the required one, whatever the spelling (c03_filter_follows_order, c03_filter_own_version, c03_filter_edges); over a candidate list with the dq map, allowPin/preferPin and the installed package "
                  "the function is that version filter followed by 'not disqualified and not rejected by the pin rule', in input order - pins and dq only remove (c03_filter_list_is_version_filter, c03_filter_pins_only_remove). "
                  "Shared-library names, for ALL names and version strings: '0.'+V is accepted like V and denotes V's tuple with one more leading 0, which changes neither the order nor ~ when done on both sides (c03_zero_dot_prefix); "
                  "the regenerated -r\\d+$ accepts exactly 'ends in -r and digits' (c03_release_suffix); goextract reads HOW the so: block finds the start of the version (so_rewrite_shape: the scan over the run of operator characters since "
                  "fix C03-F2, commit 0f275a6; strings.Cut at '=' before) and the model interprets that shape (c03_soname_shape); so:NAME<op>V resolves to its parts with V moved to 0.V exactly when V has no release suffix, under every operator "
                  "(c03_soname_resolve); the verdict on a so: provide scales both sides by the same rule and on versions of the same kind is the spec's operator on the two versions, for all six operators (c03_soname_scale). "
                  "The repaired defect stays stated on the HYPOTHETICAL old shape (Model/SonameShapes.v): witness and for-all form of 'operators without = were not rescaled' (c03_soname_old_shape_refuted, c03_soname_old_shape_refuted_for_all), "
                  "and the fix left =, >=, <= and operator-free strings byte for byte alone (c03_soname_fix_conservative). Correspondence compares every parsed field, every comparison, every SatisfiedBy verdict and every filterPackages result.")
    level_note = ("trusted: Coq kernel, goextract (regex AST, constants, switch tables), harness; modelled not verified: control flow of ParseVersion/CompareVersions/includesVersion/"
                  "ResolvePackageNameVersionPin (hand model, differential testing), Go regexp engine")
    modelled_not_verified = ("version.go control flow is modelled by hand (filterPackages' loop with dq/pins/installed included: Model/VersionFilterPins.v; a candidate's URL is an observed input); "
                             "constants, switch tables and regexes are regenerated; Model/SonameShapes.v's so_rewrite_old / resolve_constraint_old are the hypothetical old shape of the so: block, not the code")

PROP = P()
