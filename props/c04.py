import vlib

class P(vlib.Prop):
    id = "C04"
    watch = ("pkg/apk/apk/index.go", "pkg/apk/apk/apkindex.go", "pkg/apk/signature/rsa.go")
    rule = ("names stage: signatureFileRegex.FindStringSubmatch on hand-picked and generated entry names vs the model's splitter; "
            "parse stage: a corpus of hand-picked archives (every rejection reason, every opt-out combination, DSA/RSA512 names carrying valid RSA signatures, "
            "key names with '/', extra entries in the signature member, several signatures of which a later one verifies, meta-headers and zero blocks left "
            "at the end of the signature member) then generated archives x option combinations, each built as real bytes with fresh RSA-2048 keys and run through the real "
            "parseRepositoryIndex; the harness hands the abstract view, the crypto/rsa truth table of verification and the ParsePackageIndex table to the model; "
            "sweep stage (exploration): every truncation point, single-bit/byte alterations, deletions, insertions, splices and cross-overs between signed archives and "
            "hand-made tar blocks appended to the signature member, judged on the real code against the property itself. "
            "repos stage: HISTORIES of calls of the real GetRepositoryIndexes (one goroutine per repository, process-wide index cache) over eight repositories whose indexes are signed by "
            "alice, signed by bob, unsigned or spliced, reached as local directories, over HTTP with and without an ETag; every call has its own key set, ignore flag and exemption list; "
            "the validator demands that every index a call returns was authorised by THAT call, and the outcome is compared with the cache model (Model/IndexCache.v). "
            "A parse case is non-trivial when the archive has a signature member with at least one entry; distinct = distinct case terms.")
    stages = (
        dict(name="names", cmd="c04", args=lambda t, s: ["-stage", "names"]),
        dict(name="parse", cmd="c04", args=lambda t, s: ["-stage", "parse"]),
        dict(name="sweep", cmd="c04", args=lambda t, s: ["-stage", "sweep"]),
        dict(name="repos", cmd="c04", args=lambda t, s: ["-stage", "repos"]),
        dict(name="vctx", cmd="c04", args=lambda t, s: ["-stage", "vctx"]),
    )
    assumptions = (
        "SHA-1/SHA-256, RSA PKCS1v15 verification and the APKINDEX text parser are Section variables; theorems speak about the verify oracle's answer and equality of what is hashed, not about collision resistance",
        "gzip and tar byte decoding are not modelled: an archive is a list of gzip members, each a list of tar entries plus what the member's tar stream ends with (pending meta-header, zero blocks); the byte level is explored by the sweep stage on the real code",
        "a PAX size record is modelled when it keeps the number of 512-byte blocks (exact) or lowers it (tar header error, given that content blocks are not valid tar headers); raising it is outside the modelled envelope (the model answers Unmodelled, the sweep stage covers it)",
        "the key map is modelled as the list of its names (no duplicates); verify is indexed by key name",
    )
    level_text = ("Theorems about an executable model of parseRepositoryIndex + IndexFromArchive + shouldCheckSignatureForIndex for all archives (any number of members, entries, "
                  "signature entries), key sets and option combinations; the signature-name regular expression, the signature-type switch, the file-name constants and the IndexURL format "
                  "are regenerated from index.go/apkindex.go/const.go on every run; model tied to the code by differential comparison on generated archives built as real bytes.")
    level_note = ("trusted: Coq kernel, goextract, Go harness/printer; modelled not verified: Go text of parseRepositoryIndex/IndexFromArchive, klauspost gzip, compress/gzip, archive/tar, crypto/rsa; "
                  "correspondence and byte sweep are testing, not proof")
    design_ref = "DESIGN.md 7 C04"
    modelled_not_verified = ("parseRepositoryIndex, IndexFromArchive, shouldCheckSignatureForIndex, IndexURL are modelled by hand (Model/Index.v); signatureFileRegex, the signatureType switch, "
                             "apkIndexFilename/descriptionFilename/indexFilename, the .SIGN. prefix and the IndexURL format are regenerated from the source; gzip/tar/crypto are exercised by the parse and sweep stages only")

PROP = P()
