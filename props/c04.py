import vlib

class P(vlib.Prop):
    id = "C04"
    watch = ("pkg/apk/apk/index.go", "pkg/apk/apk/apkindex.go", "pkg/apk/signature/rsa.go", "pkg/apk/apk/implementation.go", "pkg/apk/apk/repo.go")
    rule = ("names stage: signatureFileRegex.FindStringSubmatch on hand-picked and generated entry names vs the model's splitter; "
            "parse stage: a corpus of hand-picked archives (every rejection reason, every opt-out combination, DSA/RSA512 names carrying valid RSA signatures, "
            "key names with '/', key files that are not PKIX RSA keys (PKCS#1, ECDSA, several PEM blocks), extra entries in the signature member, several signatures of which a later one verifies, "
            "meta-headers and zero blocks left at the end of the signature member) then generated archives x option combinations, each built as real bytes with fresh RSA-2048 keys and run through the real "
            "parseRepositoryIndex; the harness hands the abstract view, the crypto/rsa truth table of verification and the ParsePackageIndex table to the model; accept/reject, package list, description and the "
            "Signature field are compared; the evidence carries the histogram of archive shapes (extra.shape_histogram) and every required shape occurs among the generated cases of every run; "
            "sweep stage: every truncation point, single-bit/byte alterations, deletions, insertions, splices and cross-overs between signed archives and "
            "hand-made tar blocks appended to the signature member are run through the real code and EVERY mutant is handed to the mutant-oracle validator (Spec/IndexBytesSpec.v, proved sound: "
            "verdict = rejected, or accepted with the package list of a signed byte string the mutant ends with); accepted mutants are one case each (pieces of the mutant after the claimed cut, rendered "
            "and compared in Coq), rejected ones are batched per base archive x kind of mutation. "
            "repos stage: HISTORIES of calls of the real GetRepositoryIndexes (one goroutine per repository, process-wide index cache) over ten repositories whose indexes are signed by "
            "alice, signed by bob, signed by another key stored under alice's file name, unsigned or spliced, reached as local directories, over HTTP with and without an ETag; every call has its own key set, ignore flag and exemption list; "
            "the validator demands that every index a call returns was authorised by THAT call, and the outcome is compared with the cache model (Model/IndexCache.v). "
            "vctx stage: PAIRS of requests through the real verificationContext (the verification-context part of the cache key); the model, which interprets the hash writes goextract read from the source, must build the "
            "same hash input and string, and the validator demands that equal strings mean the same checked-ness and the same set of (key name, key bytes) pairs. "
            "wiring stage: ResolveWorld of every context of multi-architecture builds (real APK contexts wired through ByArch by hand and by build.NewMultiArch) over per-architecture indexes that are signed, signed by an unknown key, "
            "unsigned, spliced or tampered; validator: whenever ResolveWorld succeeds every own AND sibling index that reached resolution was authorised; model = the two ignore arguments read from the source. "
            "files stage: histories of GetRepositoryIndexes calls over local repositories whose index files are rewritten between calls with explicit mtimes; validator: every returned version is authorised by the call and a repository "
            "whose index in place is visibly the newest and does not verify under the call is not used; compared with the model of the local-file cache branch. "
            "etag stage: the same kind of histories over remote repositories served with an ETag (fresh and reused ETags), compared with the model of the per-ETag cache entries and forget. "
            "The parse stage also hands the harness's own decoding of every configured key file (no PEM block / not PKIX DER / not RSA / RSA) to the staged model of RSAVerifyDigest read from signature/rsa.go. "
            "interleave stage (best effort, no model): loads of a signed and an exempted remote repository with bodies of equal length under logger-steered, server-stalled and free schedules, GOMAXPROCS 1 and 2, repeated; "
            "validator: what a call returns for a repository carries that repository's marker packages. "
            "A parse case is non-trivial when the archive has a signature member with at least one entry; distinct = distinct case terms.")
    stages = (
        dict(name="names", cmd="c04", args=lambda t, s: ["-stage", "names"]),
        dict(name="parse", cmd="c04", args=lambda t, s: ["-stage", "parse"]),
        dict(name="sweep", cmd="c04", args=lambda t, s: ["-stage", "sweep"]),
        dict(name="repos", cmd="c04", args=lambda t, s: ["-stage", "repos"]),
        dict(name="vctx", cmd="c04", args=lambda t, s: ["-stage", "vctx"]),
        dict(name="wiring", cmd="c04", args=lambda t, s: ["-stage", "wiring"]),
        dict(name="files", cmd="c04", args=lambda t, s: ["-stage", "files"]),
        dict(name="etag", cmd="c04", args=lambda t, s: ["-stage", "etag"]),
        dict(name="interleave", cmd="c04", args=lambda t, s: ["-stage", "interleave"]),
    )
    assumptions = (
        "SHA-1/SHA-256, RSAVerifyDigest (PEM/PKIX decoding + RSA PKCS1v15), the gzip and tar readers and the APKINDEX text parser are Section variables; the structural theorems speak about the verify oracle's answer on the digest of exactly what is parsed",
        "c04_mutant_oracle (and its two corollaries) assume soundness of the signature oracle as a hypothesis of the theorem: whatever verifies under a configured key's bytes over the digest of x is one of the byte strings that were signed (unforgeability and collision resistance, idealised)",
        "c04_vctx_injective and c04_cache_real_context_sound assume a collision-free hash (hypothesis of the theorems) in place of SHA-256",
        "byte level: the archive is a byte string, the number of bytes the gzip reader of the signature pass consumed is an arbitrary oracle output (not assumed to be a member boundary); gzip/tar byte decoding itself is exercised by the parse and sweep stages only",
        "member-structure level: an archive is a list of gzip members, each a list of tar entries plus what the member's tar stream ends with (pending meta-header, zero blocks); c04_bytes_model_refines_structure states when the two levels agree",
        "a PAX size record is modelled when it keeps the number of 512-byte blocks (exact) or lowers it (tar header error, given that content blocks are not valid tar headers); raising it is outside the modelled envelope (the model answers Unmodelled, the sweep stage covers it)",
        "structure model: the key map is the list of its names (no duplicates), verify indexed by key name; byte model and verificationContext: the key map is a list of (name, key bytes) pairs",
    )
    level_text = ("Theorems about executable models of parseRepositoryIndex (member-structure level with IndexFromArchive as a tar walk, and byte level with the cut b[readBytes:] the code computes), "
                  "shouldCheckSignatureForIndex, verificationContext and the index cache, for all archives / byte strings, key sets, option combinations and call histories: acceptance requires a verified entry "
                  "of a verifiable type by a configured key over exactly the bytes that are parsed; the mutant oracle (rejected, or accepted with the content of a signed suffix) under a stated soundness hypothesis on the "
                  "signature oracle; the cache key separates verification contexts under a collision-free hash. The signature-name regular expression, the signature-type switch, the file-name constants, the IndexURL format, "
                  "the exemption test, the guards around the two loops, the arguments of RSAVerifyDigest, the hashed and the parsed expression and the hash writes of verificationContext "
                  "are regenerated from index.go/apkindex.go/const.go on every run; models tied to the code by differential comparison on generated archives built as real bytes.")
    level_note = ("trusted: Coq kernel, goextract, Go harness/printer; modelled not verified: Go text of parseRepositoryIndex/IndexFromArchive/verificationContext/indexCache.get, klauspost gzip, compress/gzip, archive/tar, "
                  "encoding/pem, crypto/x509, crypto/rsa; correspondence stages are testing, not proof; the sweep validator is proved sound but what it is fed are the real code's verdicts on finitely many mutants")
    design_ref = "DESIGN.md 7 C04"
    modelled_not_verified = ("parseRepositoryIndex, IndexFromArchive, shouldCheckSignatureForIndex, IndexURL, verificationContext are modelled by hand (Model/Index.v, IndexBytes.v, IndexVctx.v) around constants, tables and statement shapes "
                             "regenerated from the source (Generated/IndexConsts.v, IndexShapes.v, Regexes.v); indexCache.get/GetRepositoryIndexes only as a cache discipline (no pin name, ETag change, mtime re-read, missing-file skip); "
                             "ResolveWorld's two index loads (Model/IndexWiring.v) and the local-file branch of indexCache.get over rewritten files (Model/IndexCacheFiles.v) are modelled by hand around the arguments read from the source; "
                             "RSAVerifyDigest is modelled in stages from the statement list read from the source (Model/IndexRsa.v), its four library calls (pem.Decode, ParsePKIXPublicKey, the RSA type assertion, VerifyPKCS1v15) are oracles; "
                             "the ETag branch of indexCache.get is Model/IndexCacheEtag.v (no HEAD failures, no missing ETag, no concurrency of sync.Once); gzip, tar are oracles exercised by the parse, sweep and vctx stages; memory aliasing between concurrent loads is searched for by the interleave stage only; expandapk.Split is not on the index path")

PROP = P()
