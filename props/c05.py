import vlib

class P(vlib.Prop):
    id = "C05"
    watch = ("pkg/apk/apk/implementation.go", "pkg/apk/expandapk/*.go", "pkg/apk/apk/install.go", "pkg/tarfs/fs.go", "pkg/build/installable_from_lock.go")
    rule = ("install stage: for freshly built synthetic packages (fresh RSA key, synthrepo) every substitution of the statement — control of another build, data of another package, "
            "a modified body, a modified / missing / undecodable per-file checksum, a different internally consistent package under the URL, wrong / absent / empty / duplicated datahash, "
            "checksum strings without Q1 / not base64 / empty / of another build, nothing under the URL — each x {tarfs lazy install, memfs streaming install} x "
            "{cache disabled; cold then again in a new process; warm from an earlier process; variant first then origin repaired; same request twice in one process}, "
            "plus republished-URL sequences and generated sequences of 2-4 installs with random cache directories, process boundaries and origins; every install goes through the real "
            "apk.New/InitDB/InstallPackages. Observed: success/failure, recorded pkgdesc, contents of installed regular files. A case is a sequence; distinct = label + outcome pattern.")
    stages = (
        dict(name="install", cmd="c05", args=lambda t, s: []),
    )
    assumptions = (
        "SHA-1 / SHA-256 are Section variables; c05_chain speaks about equality of digests; c05_data_authenticated states collision resistance as explicit hypotheses on the oracles",
        "a served .apk is well-formed (signature member optional, one control member, one data member): gzip/tar decoding and stream counting in ExpandApk are not modelled",
        "file conflicts between packages (C07) and the cache's crash/concurrency protocol (C19) are not part of this model; the on-disk cache is modelled as names -> contents, written only by cachePackage",
        "hex of a byte string is injective, so <hex sha1>.ctl.tar.gz entries are keyed by the digest; .dat.tar.gz entries are keyed by name as text because the reader takes the name verbatim from datahash",
    )
    level_text = ("Theorems about an executable model of expandPackage (fetch, ExpandApk's per-file check, verifyExpanded, cachePackage, cachedPackage, the process-wide memo) and of the lazy and streaming installs, "
                  "for all handles, served packages, cache contents satisfying the population invariant and memo states; tied to the code by differential comparison of install sequences through the public API; "
                  "the verified validator of the chain is run on what the real code installed.")
    level_note = ("trusted: Coq kernel, Go harness/printer, synthrepo; modelled not verified: Go text of expandPackage/verifyExpanded/cachedPackage/cachePackage/checkSums/installAPKFiles/WriteHeader, "
                  "gzip, archive/tar, crypto; correspondence is differential testing, not proof")
    design_ref = "DESIGN.md 7 C05"
    modelled_not_verified = ("expandPackage, verifyExpanded, cachedPackage, cachePackage, apkCache.get, checkSums, installAPKFiles/installRegularFile, tarfs WriteHeader are modelled by hand (Model/PkgAuth.v); "
                             "ExpandApk's stream splitting, tarfs indexing and the cache's file protocol are exercised by the install stage only")

PROP = P()
