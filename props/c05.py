import vlib

class P(vlib.Prop):
    id = "C05"
    watch = ("pkg/apk/apk/implementation.go", "pkg/apk/expandapk/*.go", "pkg/apk/apk/install.go", "pkg/tarfs/fs.go", "pkg/build/installable_from_lock.go")
    rule = ("install stage: 122 package variants in 12 families — every substitution of the statement (control of another build, data of another package, a modified body, "
            "a modified / missing / undecodable / borrowed per-file checksum, a different internally consistent package under the URL, wrong / absent / empty / duplicated / upper-case datahash, "
            "checksum strings without Q1 / not base64 / empty / of another build, nothing under the URL), symlinks, hard links (to a file, to a link, retargeted, dangling, before their target, between files), "
            "top-level dot files, every shape of the served byte stream (unsigned, bytes after the last member, truncated, one member, no member, empty, doubled or foreign members, a data section split over two "
            "members, a member after the end-of-archive marker, odd control sections, the fixed C05-F3 shape), .PKGINFO TEXTS (lines of 65535 / 65536 / 70000 bytes and 1 MiB before or after the datahash line, "
            "CR LF, tabs and no-break spaces, no final newline, several datahash lines, a datahash line with two '='), data-section entries of every tar type flag (NUL, '7', unknown, char, block, fifo, symlink, "
            "hard link) with a body and a checksum record, genuine and altered, and the fixed C05-F4 shape (a sparse entry) — each x {tarfs lazy install, memfs streaming install} x the cache MODES "
            "{disabled; cold then again in a new process; warm from an earlier process; OFFLINE with a whole .apk pre-populated under the URL-derived name, over http} plus ONE of five further histories "
            "(warm without the uncompressed .dat.tar; variant first then origin repaired; same request twice in one process; online over http with a pre-populated file, then offline; online over http no cache / "
            "cold / offline) rotating with the seed in the quick tier, all five in the thorough tier: 1220 cells quick, 2196 thorough; plus republished-URL / memo-key sequences, the well-formed variants behind "
            "a real signed index (FixateWorld), and generated sequences of 2-4 installs with random cache directories, process boundaries, origins, transports, offline flags, pre-populated files and dropped tars. "
            "Every install goes through the real apk.New/InitDB/InstallPackages. Observed: success/failure, recorded pkgdesc, contents of every file readable afterwards under the name of any shipped entry that "
            "is not a directory or symlink. A case is a sequence; distinct = label + outcome pattern; distribution bucket = family/history/install path:outcomes.")
    stages = (
        dict(name="install", cmd="c05", args=lambda t, s: []),
    )
    assumptions = (
        "SHA-1 / SHA-256 / base64 and the decoders (first tar header of a gzip member, pkgdesc and TEXT of the first .PKGINFO entry of a control member, multi-member gunzip, untar) are Section variables; the datahash values are computed from the text in Coq (control_values = controlValue); "
        "c05_chain speaks about equality of digests; c05_end_to_end, c05_data_authenticated and c05_content_addressing state collision resistance (sha1 injective, hex of sha256 injective) as explicit hypotheses on the oracles",
        "a served file is a list of complete gzip members followed by bytes that are not one; the one-byte-at-a-time reader of ExpandApk is modelled as cutting the first member(s) exactly at their last byte "
        "(justified in Model/PkgAuth.v at [cut_with]; exercised by the stream-shape variants), gzip/tar decoding itself is an oracle filled by the harness with the standard library's result",
        "file conflicts between packages (C07), the cache's crash/concurrency protocol (C19) and the cache directory's path (C18) are not part of this model; the on-disk cache is modelled as three maps "
        "name -> bytes (<sha1>.ctl.tar.gz, <name>.dat.tar.gz, <name>.dat.tar), written only by cachePackage and by PackageData's rebuild of a missing .dat.tar; the .sig.tar.gz file plays no part",
        "hex of a byte string is injective, so <hex sha1>.ctl.tar.gz entries are keyed by the digest; .dat.tar.gz / .dat.tar entries are keyed by name as text because the reader takes the name verbatim from datahash",
        "hard links: the target is looked up among the names this package wrote so far (exact text); links to symlinks / directories and duplicate names are C06/C07/C17 territory and are not generated",
    )
    level_text = ("Theorems about an executable model of ExpandApk's cut of the served stream (which member is hashed as control section, that ALL remaining members are the data section, that nothing may follow), "
                  "its per-file check, checksumFromHeader (record key and base64 prefix read from the three copies in the source by goextract, hex decoding in Coq), controlValue's reading of the .PKGINFO text, the tar index's refusal of sparse entries, verifyExpanded, the sources of a fetch (origin, pre-populated cache file, offline), cachePackage / cachedPackage over the three cache files, the process-wide memo, and the lazy and streaming installs (regular files, symlinks, hard links, other types), "
                  "for all handles, served streams, cache contents satisfying the population invariant and memo states; c05_end_to_end: under collision resistance every installed file's bytes are the body of an entry of the "
                  "data bytes whose SHA-256 the control member records whose SHA-1 the handle records, for the cold, warm-cache and memo paths and both install paths; tied to the code by differential comparison of "
                  "install sequences through the public API; the verified validator of the chain is run on what the real code installed.")
    level_note = ("trusted: Coq kernel, Go harness/printer (its gzip/tar/.PKGINFO decoding fills the oracle tables), synthrepo; modelled not verified: Go text of ExpandApk/expandApkWriter.Next/checkSums/expandPackage/"
                  "verifyExpanded/cachedPackage/cachePackage/PackageData/apkCache.get/installAPKFiles/WriteHeader, gzip, archive/tar, crypto; correspondence is differential testing, not proof")
    design_ref = "DESIGN.md 7 C05"
    modelled_not_verified = ("ExpandApk (member cut, hashes, checkSums), checksumFromHeader (literals generated, structure by hand), expandPackage, verifyExpanded, cachedPackage, cachePackage, PackageData's rebuild, apkCache.get, installAPKFiles/installRegularFile, "
                             "tarfs WriteHeader are modelled by hand (Model/PkgAuth.v); not modelled: sizes recorded in APKExpanded, the .sig.tar.gz cache file, cacheDirForPackage (C18), "
                             "the temp-file protocol of the cache (C19), conflicts between packages (C07), isInstalledPackage's skip, scripts.tar / triggers written from the control file")

PROP = P()
