import vlib

class P(vlib.Prop):
    id = "C06"
    rule = ("bytes stage (the byte-level codec, Model/TarBytes.v): small filesystems chosen for the corners of the tar encoding (names of 99/100/101/155/156/255/256/300 bytes, "
            "paths that do and do not split at a '/', non-ASCII names, uid/gid around 8^7 and beyond 2^31, sizes 0/1/511/512/513/1023/1024/1025, extended attributes with "
            "any bytes and with record lengths around 99/100 and 999/1000, link targets of 100/101 bytes, device numbers up to and beyond 8^7 (GNU fallback), mtimes 0, 8^11-1, 8^11, negative, "
            "year 1, passwd names of 32/33 bytes and non-ASCII), the filesystems of the layers corpus and random ones are serialised by the REAL walkFS+writeTar to an uncompressed "
            "stream and read back by archive/tar's Reader; Coq derives the members from the tree (walk, hdr_of_entry), must produce the very same bytes with write_archive and read the very "
            "same members with read_archive. Raw tar.Header lists that no apko filesystem produces (block devices, fifos, negative ids, global headers, refused headers) go through "
            "archive/tar's Writer driven as writeTar drives it; hand-made and damaged streams (V7/STAR/GNU blocks, base-256 numbers, signed checksums, odd PAX records, every kind of truncation, "
            "random cuts and bit flips of real streams) are read by the real Reader and by read_archive (quick 300 cases, thorough 1700). "
            "layerfile stage (exploration on real bytes): the real ImageLayoutToLayer emits layers of filesystems of different sizes to the SAME path "
            "(explicit tarball path and temp-dir default, one build context re-used and fresh ones, a path that already holds other bytes, both backends); after each "
            "emission the blob layer.Compressed() hands out must have the advertised size/digest/diff-id and untar to the filesystem's files. "
            "layers stage: a corpus of hand-picked filesystems (empty, empty file, setuid/setgid/sticky, uid/gid with and without passwd entries, "
            "duplicate uids, xattrs, dangling symlinks, char devices, long and non-ASCII names, sibling-order corners, a multi-megabyte file, "
            "package files written through tarfs.WriteHeader, and the replay of every recorded finding) on both in-memory filesystems, then "
            "random filesystems built through the FullFS interface (quick 200, thorough 5000; files up to 8 MiB in thorough). For each: the state "
            "is read back through the interface, the real walkFS headers and the entries found by the harness's own gzip+tar reader in the layer "
            "written by newLayerWriter+writeTar+finalize are compared with the model and judged by the verified validator; sha256/size of the "
            "bytes are recomputed and compared with the v1.Layer. A case is non-trivial when it creates at least two nodes; distinct = distinct terms.")
    stages = (
        dict(name="layers", cmd="c06", args=lambda t, s: []),
        dict(name="layerfile", cmd="c06", args=lambda t, s: ["-stage", "layerfile"]),
        dict(name="bytes", cmd="c06", args=lambda t, s: ["-stage", "bytes"]),
    )
    watch = ("pkg/build/tarball.go",)
    assumptions = (
        "the filesystem state is what the FullFS interface reports (ReadDir/Info/Readlink/Readnod/ListXattrs/ReadFile); which names are hard links of which is known from the operations the harness performed (the interface exposes no inode numbers)",
        "a node whose Go ModTime is the zero time.Time (never set) has modification time 0 (Unix epoch), which is how archive/tar writes it",
        "passwd/group are parsed by pkg/passwd; the model receives the (id, name) pairs in file order",
        "file content is compared through a 56-bit prefix of its SHA-256 and its length",
        "gzip and sha256 are oracles in c06_digest; the byte-level codec (archive/tar, pgzip) is exercised by the harness's independent reader, not proved",
    )
    level_text = ("c06_extract_walk: for every tree of directories, regular files, symlinks and character devices with distinct child names (any depth, any "
                  "names, any mode bits incl. setuid/setgid/sticky, any uid/gid, any xattrs on files and directories, any mtime) the reference extractor "
                  "applied to the model's walk returns exactly the tree; c06_walk_complete_nodup: the walk's paths are strictly "
                  "increasing in component-wise bytewise order, hence each listed once, siblings sorted, a directory before its contents (that every path is listed follows inside the envelope from c06_extract_walk); c06_names: Uname/Gname follow passwd/group; c06_digest over "
                  "oracles; c06_validator_decides: the validator run on the implementation's layers decides the readable statement. The full statement is "
                  "refuted for hard links (C06-F1, C06-F2), sub-second mtimes (C06-F3) and xattrs on character devices (C06-F4), each with a witness replayed "
                  "on the real code. The model is tied to walkFS/writeTar by differential comparison of headers and of independently untarred layer entries.")
    level_note = ("trusted: Coq kernel, Go harness/printer (incl. its read-back of the filesystem state and its tar reader); modelled not verified: Go text of "
                  "walkFS/writeTar/newLayerWriter, tar.FileInfoHeader, archive/tar and pgzip byte codecs, sha256; digest/diff-id/size of real bytes are "
                  "recomputed by the harness (exploration, not proof); correspondence is differential testing")
    design_ref = "DESIGN.md 7 C10/C06, Appendix A.3"
    modelled_not_verified = ("walkFS header synthesis, fs.WalkDir order and the tarfs hard-link side table are modelled by hand (Model/Tar.v); "
                             "archive/tar's encoding (incl. ModTime rounding), pgzip and sha256 are observed through the emitted bytes only; "
                             "ImageLayoutToLayer's checkPaths and file creation are not exercised (the hook composes newLayerWriter+writeTar+finalize)")

PROP = P()
