import vlib

class P(vlib.Prop):
    id = "C06"
    rule = ("faults stage (faults DURING serialisation): the real ImageLayoutToLayer over a filesystem wrapped by the harness — the context cancelled before the walk and while the k-th entry is "
            "produced (k swept over the tree), Stat/ReadDir of the root failing, ReadDir of a chosen directory, Readlink, Readnod, Open of a chosen file's content failing; both backends; "
            "outcome (error, or the untarred layer) compared with Model/TarFaults.v, and a layer handed out despite the fault must be faithful to the tree (quick 130 cases, thorough ~2000). "
            "e2e stage: real builds — build.New over a tarfs and BuildLayer (packages from a synthetic signed repository with directories, files of sizes around the block size, "
            "setuid/setgid/sticky modes, owners with and without accounts, extended attributes, symlinks, hard links recorded in the package, long and non-ASCII names; accounts; "
            "directory / empty-file / symlink / permissions / hardlink path mutations), i.e. the REAL ImageLayoutToLayer with checkPaths and file creation; the filesystem the build left "
            "behind is read back through the interface, the layer BuildLayer hands out is untarred by the harness's own reader, and both go to the same check as the layers stage "
            "(quick 35 builds, thorough 410). "
            "bytes stage (the byte-level codec, Model/TarBytes.v): small filesystems chosen for the corners of the tar encoding (names of 99/100/101/155/156/255/256/300 bytes, "
            "paths that do and do not split at a '/', non-ASCII names, uid/gid around 8^7 and beyond 2^31, sizes 0/1/511/512/513/1023/1024/1025, extended attributes with "
            "any bytes and with record lengths around 99/100 and 999/1000, link targets of 100/101 bytes, device numbers up to and beyond 8^7 (GNU fallback), mtimes 0, 8^11-1, 8^11, negative, "
            "year 1, passwd names of 32/33 bytes and non-ASCII), the filesystems of the layers corpus and random ones are serialised by the REAL walkFS+writeTar to an uncompressed "
            "stream and read back by archive/tar's Reader; Coq derives the members from the tree (walk, hdr_of_entry), must produce the very same bytes with write_archive and read the very "
            "same members with read_archive. Raw tar.Header lists that no apko filesystem produces (block devices, fifos, negative ids, global headers, refused headers) go through "
            "archive/tar's Writer driven as writeTar drives it; hand-made and damaged streams (V7/STAR/GNU blocks, base-256 numbers, signed checksums, odd PAX records, every kind of truncation, "
            "random cuts and bit flips of real streams) are read by the real Reader and by read_archive (quick 300 cases, thorough 1700). "
            "layerfile stage, fault class: the real ImageLayoutToLayer emitting to an output that refuses bytes — /dev/full, and a regular file under an RLIMIT_FSIZE of 1 byte to 5 MiB "
            "(SIGXFSZ ignored, in a child process), filesystems of 0 to 5 MiB of incompressible content, both backends; the call must return an error, or the bytes found in the file must have "
            "the advertised size, hash to the advertised digest and gunzip to the advertised diff-id (quick 44 cases, thorough 150). "
            "layerfile stage (exploration on real bytes): the real ImageLayoutToLayer emits layers of filesystems of different sizes to the SAME path "
            "(explicit tarball path and temp-dir default, one build context re-used and fresh ones, a path that already holds other bytes, both backends); after each "
            "emission the blob layer.Compressed() hands out must have the advertised size/digest/diff-id and untar to the filesystem's files. "
            "layers stage: a corpus of hand-picked filesystems (empty, empty file, setuid/setgid/sticky, uid/gid with and without passwd entries, "
            "duplicate uids, xattrs, dangling symlinks, char devices, long and non-ASCII names, sibling-order corners, a multi-megabyte file, "
            "package files written through tarfs.WriteHeader, and the replay of every recorded finding) on both in-memory filesystems, then "
            "random filesystems built through the FullFS interface (quick 200, thorough 5000; files up to 8 MiB in thorough). For each: the state "
            "is read back through the interface, the real walkFS headers and the entries found by the harness's own gzip+tar reader in the layer "
            "written by newLayerWriter+writeTar+finalize are compared with the model and judged by the verified validator; sha256/size of the "
            "bytes are recomputed and compared with the v1.Layer. A case is non-trivial when it creates at least two nodes; distinct = distinct terms.")
    stages = (
        dict(name="layers", cmd="c06", args=lambda t, s: []),
        dict(name="layerfile", cmd="c06", args=lambda t, s: ["-stage", "layerfile"]),
        dict(name="bytes", cmd="c06", args=lambda t, s: ["-stage", "bytes"]),
        dict(name="e2e", cmd="c06", args=lambda t, s: ["-stage", "e2e"]),
        dict(name="faults", cmd="c06", args=lambda t, s: ["-stage", "faults"]),
    )
    watch = ("pkg/build/tarball.go",)
    assumptions = (
        "the filesystem state is what the FullFS interface reports (ReadDir/Info/Readlink/Readnod/ListXattrs/ReadFile); which names are hard links of which is known from the operations the harness performed, from the TypeLink members of the synthetic packages and from the hardlink path mutations (the interface exposes no inode numbers)",
        "a node whose Go ModTime is the zero time.Time (never set, or set to 0001-01-01T00:00:00Z) has modification time 0 (Unix epoch), which is how archive/tar writes it (c06_bytes_envelope_boundary has the witness)",
        "passwd/group are parsed by pkg/passwd; the model receives the (id, name) pairs in file order",
        "file content is compared through a 56-bit prefix of its SHA-256 and its length (layers, e2e); the bytes stage compares the content itself",
        "gzip and sha256 are oracles in c06_digest; pgzip and sha256 are exercised by the harness's independent reader, not proved",
        "archive/tar is the one of the Go toolchain the harness is built with (1.23); Model/TarBytes.v is a hand transcription of its Writer and Reader, compared byte for byte with them on every run",
    )
    level_text = ("c06_layer_bytes_faithful_tree / c06_layer_bytes_faithful: for every tree in the envelope of c06_extract_walk_links with whole-second times that lies in the byte envelope (forest_bytes_okb, a decidable predicate on the tree; c06_tree_envelope_walk carries it to the walk), the model's tar stream of the layer "
                  "(walk, header synthesis with the PAX prefix read from tarball.go, archive/tar's Writer with header.Format as walkFS leaves it, the final Close) is read back by the model of "
                  "archive/tar's Reader as members standing for entries that extract to exactly the tree (paths strictly increasing, names from passwd/group). Its parts: c06_bytes_roundtrip "
                  "(read_archive (write_archive ms) = the members, for all members in the stated envelope: names of any length and bytes, ids beyond 2^21, sizes beyond 8 GiB, negative and large "
                  "times, long user/group names, extended attributes with any bytes), c06_bytes_view, c06_bytes_entries, c06_bytes_blocks (whole 512-byte blocks, two zero blocks at the end), "
                  "c06_bytes_injective (canonicity), c06_bytes_octal / c06_bytes_header_block / c06_bytes_pax_record (fields, checksum, self-counting record length), c06_bytes_xattr_prefix, "
                  "c06_bytes_envelope_boundary; c06_extract_walk / c06_extract_walk_links: the reference extractor applied to the walk returns exactly the tree (recorded hard links whose targets "
                  "sort first included); c06_walk_complete_nodup; c06_names; c06_digest over oracles; c06_validator_decides. The full statement is refuted for hard links (C06-F1, C06-F2, C06-F5), "
                  "sub-second mtimes (C06-F3) and xattrs on character devices (C06-F4), each with a witness replayed on the real code. The model is tied to the code by goextract (xattr prefix and "
                  "its guard, header.Format, tw.Close) and by differential comparison: walk headers, layer entries, the very bytes of the tar stream and the members archive/tar reads from them.")
    level_note = ("trusted: Coq kernel, Go harness/printer (incl. its read-back of the filesystem state and its tar reader); modelled not verified: Go text of "
                  "walkFS/writeTar/newLayerWriter, tar.FileInfoHeader, archive/tar's Writer and Reader (transcribed by hand, compared on bytes), pgzip, sha256; digest/diff-id/size of real bytes are "
                  "recomputed by the harness (exploration, not proof); correspondence is differential testing")
    design_ref = "DESIGN.md 7 C10/C06, Appendix A.3"
    modelled_not_verified = ("walkFS header synthesis, fs.WalkDir order and the tarfs hard-link side table are modelled by hand (Model/Tar.v); archive/tar's Writer (USTAR, PAX, GNU; ModTime "
                             "rounding) and Reader are modelled by hand (Model/TarBytes.v); the GNU fallback (device numbers of 8^7 and more) and GNU/STAR/V7 reading are compared with the real "
                             "code but outside the round-trip theorem; GNU sparse files are outside the model (the Writer cannot produce them); pgzip and sha256 are observed through the emitted "
                             "bytes only")

PROP = P()
