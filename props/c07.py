import vlib

class P(vlib.Prop):
    id = "C07"
    watch = ("pkg/tarfs/fs.go", "pkg/apk/apk/install.go", "pkg/apk/apk/implementation.go", "pkg/apk/apk/installed.go", "pkg/apk/apk/package.go")
    rule = ("one stage per filesystem backend (tarfs.New(), apkfs.NewMemFS(), apkfs.DirFS(tmp)): a corpus of hand-picked ordered package lists "
            "(every row of the rule table, both empty-origin rows, versioned replaces, three-package chains, symlinks, hard links, directories with "
            "different modes, non-root owners, files without directory headers, a package shipping the keyring file, FixateWorld order) followed by "
            "random ordered lists of 2-5 synthetic signed packages (synthrepo) drawn from a small pool of paths/contents/modes/origins/replaces so that "
            "overlaps are frequent; each list is installed through apk.New(WithFS)/InitDB/InitKeyring/SetRepositories/SetWorld/ResolveWorld/InstallPackages "
            "(explicit order) or FixateWorld; observed: error class (errors.As FileConflictError / other / none), tree before and after (path, kind, content "
            "id, mode, uid, gid), and lib/apk/db/installed parsed by the harness's own reader. A case is non-trivial when two packages ship the same "
            "non-directory path; distinct = distinct case terms.")
    stages = (
        dict(name="tarfs", cmd="c07", args=lambda t, s: ["-backend", "tarfs"]),
        dict(name="memfs", cmd="c07", args=lambda t, s: ["-backend", "memfs"]),
        dict(name="dirfs", cmd="c07", args=lambda t, s: ["-backend", "dirfs"]),
    )
    assumptions = (
        "file contents and link targets are compared by number: equal numbers <=> equal bytes (the code compares SHA-1 sums; collisions are outside the model)",
        "the model declines (EUnsupported) any step whose path runs through a symbolic link and hard links to anything but a regular file; generated cases stay clear of them (a declined case is reported as a mismatch)",
        "one package does not ship the same path twice (sortTarHeaders' map would collapse them); not generated",
        "xattrs, timestamps, scripts.tar and triggers are not observed",
        "versioned replaces entries (name<ver) are compared as raw strings by both backends and therefore never count as a declaration; the model and the spec read them the same way",
    )
    level_text = ("Theorems about an executable model of both install paths (tarfs.writeHeader; installRegularFile/writeOneFile), the InstallPackages loop with "
                  "installedFiles and the DeleteFunc pruning, and the header filter of sortTarHeaders: the two decision procedures equal the rule table "
                  "(empty-origin rows stated exactly), a Conflict decision always surfaces as the error of the whole install with the state untouched, the "
                  "owner invariant holds for every package list, and the database agrees with the tree on every recorded regular file (mode and content; owner "
                  "when the header says root) while the full statement is refuted by two witnesses. The model is tied to the code by differential comparison of "
                  "error class, final tree and parsed database text on all three backends, and the validators run on what the real code produced.")
    level_note = ("trusted: Coq kernel, Go harness/printer/own DB reader, synthrepo; modelled not verified: Go text of the modelled functions, archive/tar, ini, "
                  "the three FullFS implementations below the operations the install uses; correspondence is differential testing, not proof")
    design_ref = "DESIGN.md 7 C07"
    modelled_not_verified = ("tarfs.WriteHeader/writeHeader/link, installAPKFiles/installRegularFile/writeOneFile, InstallPackages (sequential installer, pruning), "
                             "AddInstalledPackage/sortTarHeaders (which headers are written; the text format itself is C16's subject) are modelled by hand in "
                             "Model/Install.v; path resolution through symbolic links is declined by the model (C17)")

PROP = P()
