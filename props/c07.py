import vlib

class P(vlib.Prop):
    id = "C07"
    watch = ("pkg/tarfs/fs.go", "pkg/apk/apk/install.go", "pkg/apk/apk/implementation.go", "pkg/apk/apk/installed.go", "pkg/apk/apk/package.go")
    rule = ("one stage per filesystem backend (tarfs.New(), apkfs.NewMemFS(), apkfs.DirFS(tmp)): a corpus of hand-picked ordered package lists "
            "(every row of the rule table, both empty-origin rows, versioned replaces, three-package chains incl. identical pairs followed by a third "
            "package of either origin, identical content with different modes/owners, symlinks, hard links, directories with different modes, non-root "
            "owners, files without directory headers, a package shipping the keyring file, FixateWorld order; ALL kind clashes at one path - directory / "
            "empty file / file / link to a directory / link to a file / dangling link, both orders, unrelated / same origin / replaces; symbolic links in "
            "directory position: lib64 -> lib layouts, chains, '..', loops, dangling, absolute targets on the in-memory backends; hard links whose TARGET a later "
            "package re-ships - same origin / replaces in either direction / unrelated / identical / as a link / twice; one package shipping a path twice - other "
            "bytes, same bytes other mode, three copies, no origin, file<->link, directories twice at and below the top level; and one case per cell of the table "
            "kind of clash (file/file, file/link, link/link, dir/other) x relation (empty origin, replaces, same origin, unrelated) x content (identical, different): "
            "the stage fails if a cell is not exercised by the hand-picked cases and prints the table it ran as clash_cells_<backend>) followed by random ordered "
            "lists of 2-5 synthetic signed packages (synthrepo) drawn from a small pool of paths/contents/modes/origins/replaces so that overlaps are "
            "frequent (a quarter of the cases ship one path with different kinds, a quarter are chains on one path, a sixth reach a directory under two names, an eighth "
            "have a package that ships a path or a directory header twice); a probe on every backend reads a hard link's name after its package re-shipped the target (finding C07-F17); "
            "each list is installed through apk.New(WithFS)/InitDB/InitKeyring/SetRepositories/SetWorld/ResolveWorld/InstallPackages (explicit order) or "
            "FixateWorld; observed: error class (errors.As FileConflictError / other / none), tree before and after (path, kind, content id, link target, mode, "
            "uid, gid), and lib/apk/db/installed parsed by the harness's own reader. A case is non-trivial when two packages ship the same non-directory "
            "path; distinct = distinct case terms.")
    stages = (
        dict(name="tarfs", cmd="c07", args=lambda t, s: ["-backend", "tarfs"]),
        dict(name="memfs", cmd="c07", args=lambda t, s: ["-backend", "memfs"]),
        dict(name="dirfs", cmd="c07", args=lambda t, s: ["-backend", "dirfs"]),
    )
    assumptions = (
        "file contents and link targets are compared by number: equal numbers <=> equal bytes (the code compares SHA-1 sums; collisions are outside the model)",
        "the filesystem is a flat map from canonical paths to nodes (no directory is reachable under two names except through symbolic links, which the model resolves as getNode/MkdirAll/openFile do); still declined (reported as a mismatch if generated): hard links to anything but a regular file, on the directory backend hard links whose target name is a link and absolute link targets (they resolve against the host's root)",
        "one package shipping a path twice is modelled: rule table against itself; the writer keeps the last header of a name and writes it once per occurrence (Model/InstallDb.v); "
        "tarfs fetches a node's bytes by the entry's name from the package's index (Model/InstallRead.v, finding C07-F17): the entry name of a node is reconstructed from the packages (own path, hard-link chain, header with these bytes)",
        "xattrs and timestamps: lib/apk/db/installed records neither (no field in the model); what SetXattr/Chtimes do to the tree is not observed; scripts.tar and triggers are not observed",
        "versioned replaces entries (name<ver) are compared as raw strings by both backends and therefore never count as a declaration; the model and the spec read them the same way",
    )
    level_text = ("Theorems about an executable model of both install paths (tarfs.writeHeader; installRegularFile/writeOneFile), the InstallPackages loop with "
                  "installedFiles and the DeleteFunc pruning, and the header filter of sortTarHeaders: the two decision procedures equal the rule table "
                  "(empty-origin rows stated exactly) and equal the ORDER OF TESTS that goextract reads off the current source; a Conflict decision always "
                  "surfaces as the error of the whole install with the state untouched; the owner invariant holds for every package list; the database agrees "
                  "with the tree on the KIND of every recorded entry, on every recorded regular file (mode and content; owner when the header says root) and, on "
                  "the streaming backends, on every recorded symbolic link; a header that survives pruning is written whenever its package ships its directory "
                  "headers; the full statement, the tarfs symlink entries and the hard-link modes are refuted by witnesses. A PROVENANCE invariant (every non-directory "
                  "node is untouched or was written by a listed header of that path: bytes, mode, owner, who installedFiles names) is preserved by every step and gives "
                  "c07_db_records_true: inside the envelope (one kind per path, no path twice in a package, nothing shipped was there before) EVERY record of the database is "
                  "true - regular files: bytes, mode, last writer, recorded once; links: a listed link header's target (this record's on the streaming backends, or when the "
                  "packages agree); hard links: a regular file with some package's bytes. Hard links are also modelled as names over a node heap: no step changes a node in "
                  "place, only the header's own name is re-bound (every other name keeps its content: c07_hardlink_names_keep_content, with the switch goextract reads off "
                  "writeHeader/link), and the flat model is exactly the reader's view of it. One package shipping a path twice: the later copy wins unless the bytes are the "
                  "same, the writer records the last header per name once per occurrence (equal to f_db when no path repeats; refuted as truthful otherwise, C07-F16); "
                  "what a reader of tarfs gets (bytes by entry name) is the tree itself when no name repeats (C07-F17 witness otherwise); when packages disagree on a link's target "
                  "the tree of tarfs holds exactly the link the walk through writeHeader's decision names (c07_lazy_link_winner_by_rules, compared with the real tree); the two facts of "
                  "sortTarHeaders the writer model rests on are read off the source by shape (c07_db_writer_is_source). "
                  "The model the correspondence runs "
                  "(install_l) additionally resolves paths through symbolic links and is proved to answer as the model of the theorems wherever that one answers. "
                  "The model is tied to the code by differential comparison of error class, final tree and parsed database text on all three backends, and the "
                  "verified validators (rule table over kinds, every recorded entry, recorded exactly once) run on what the real code produced.")
    level_note = ("trusted: Coq kernel, Go harness/printer/own DB reader, synthrepo, goextract's reading of the four functions; modelled not verified: Go text of "
                  "the modelled functions beyond the extracted order of tests / flags / constants, archive/tar, ini, the three FullFS implementations below the "
                  "operations the install uses; correspondence is differential testing, not proof")
    design_ref = "DESIGN.md 7 C07"
    modelled_not_verified = ("tarfs.WriteHeader/writeHeader/link, installAPKFiles/installRegularFile/writeOneFile, InstallPackages (sequential installer, pruning), "
                             "AddInstalledPackage/sortTarHeaders (which headers are written; the text format itself is C16's subject) are modelled by hand in "
                             "Model/Install.v; path resolution through symbolic links (getNode, MkdirAll, openFile chain, Readlink/Symlink/Link/Remove at the resolved parent) is modelled in the same file on canonical paths; "
                             "hard links as names over a node heap in Model/InstallInode.v (proved equal to the flat model; not compared separately); sortTarHeaders with repeated names in Model/InstallDb.v (compared)")

PROP = P()
