import vlib

class P(vlib.Prop):
    id = "C08"
    # a changed function in these files makes the quick tier run the stages at thorough size (about 4.5 min)
    watch = ("pkg/apk/apk/shameful_global_caches.go", "pkg/apk/apk/repo.go", "pkg/apk/apk/index.go", "pkg/apk/apk/implementation.go", "pkg/build/multi.go")
    coq_targets = ["Properties/C08.vo", "Corr/C08.vo", "Corr/C08Multi.vo"]
    rule = ("history stage: hand-picked histories first (every known-finding and fixed-finding replay - C08-F1/F3 install_if order and chain membership, fixed by c03e0c0; C08-F2 cache key without the grouping, fixed by 3541d7b -; install_if chains, name=version keys, several packages per key; the scenarios the per-call clone, the copy of the disqualification map "
            "and the explicit tie-breaks exist for; positive controls), then generated histories of 3-6 ResolveWorld-style calls "
            "(NewPkgResolver + GetPackagesWithDependencies through the public API) over 2-4 shared index objects: the same index list under different worlds, "
            "the same world over different index lists and orders, nil / single- / multi-architecture groupings, universes with install_if (2 in 5: several triggers, chains through appended packages and through name=version, two versions under one key, entries on provided names) and "
            "regrouped index sets (1 in 7, outside the envelope). Every history is repeated R times from empty caches (R = 12 quick, 30 thorough; this samples Go's "
            "map iteration orders) and every call R times on fresh caches (reset hook; additionally in a fresh PROCESS for the corpus and a sample, which must agree with the reset oracle, install_if universes included); the sets of distinct "
            "outcomes - each of which must EQUAL the sequential resolver model on the disqualification set the cache model hands out -, the cached disqualification entry before/after each call, the cached prototypes' state and the memo tables' consistency go to Coq. "
            "conc stage (EXPLORATION supporting the model; -race build): N goroutines (8 quick, 64 thorough) run rotations of a call pool over shared index objects and "
            "over private copies, after a sequential prefix, in a child process whose race reports are collected; each result is compared with the sequential fresh-cache oracle. "
            "indexcache stage: GetRepositoryIndexes over local synthetic repositories, each step compared with never-read copies of the directories. "
            "indexhist stage: histories of events over 2-3 repository directories - an index file is REWRITTEN (its modification time set explicitly: later, unchanged or earlier) or a request "
            "(GetRepositoryIndexes + resolution) runs over 1-3 repository lines under a pin name and a verification context (signatures ignored / keyring with the signing key / superset keyring / keyring without it), local or "
            "remote (httptest server, ETag from the bytes, first fetch delayed so that goroutines complete out of order); repositories share a name-version so that the ORDER of the returned list decides the install list; "
            "corpus first: one file under two entries with a rewrite between (pin / keyring), C08-F5 replays (unchanged and earlier time), delayed fetches in both orders, holes (missing local repository), remote rewrite, duplicates. "
            "Per request the Name(), directory and packages of every returned index and the (name, version, directory) install list go to Coq, where the index-cache model (Model/CachesIndex.v) runs over the events; oracle = the same request on never-read copies. "
            "Remote lines are served with an ETag, with Last-Modified only or with neither, and re-published inside one second (file time pinned) and across seconds: the index used must be the one the server holds at request time. "
            "multiarch stage: families of 2-3 architectures whose local repositories drifted apart (a version one has and another lacks), wired by the real build.NewMultiArch; every context's APK.ResolveWorld is repeated R times "
            "(100 quick, 300 thorough: the sibling loop ranges over a Go map) and BuildPackageLists (contexts concurrently) several times; the DISTINCT outcomes per architecture must be ONE, equal to Model/MultiArch.resolve_arch (the filtered list), "
            "and C14's verified validator foreign_check must find no member a sibling lacks (Corr/C08Multi.v). "
            "history stage additions: the same index SET in two orders (same name-version in both: the first listed wins) in corpus and generator, k resolutions through ONE cache key each compared with a fresh process, "
            "install_if triggers spread over two requests, and after every history the resolver trie is probed (every list used, its permutations and prefixes) against the model's rcache. "
            "A history is non-trivial when at least one call succeeds; distinct = distinct case terms.")
    stages = (
        dict(name="history", cmd="c08", args=lambda t, s: ["-stage", "history"]),
        dict(name="indexcache", cmd="c08", args=lambda t, s: ["-stage", "indexcache"]),
        dict(name="indexhist", cmd="c08", args=lambda t, s: ["-stage", "indexhist"]),
        dict(name="multiarch", cmd="c08", args=lambda t, s: ["-stage", "multiarch"]),
        dict(name="conc", cmd="c08", race=True, args=lambda t, s: ["-stage", "conc"]),
    )
    assumptions = (
        "a call is NewPkgResolver(indexes) followed by GetPackagesWithDependencies(world, allArchs) on the returned clone, as in APK.ResolveWorld; re-using one *PkgResolver for two resolutions keeps its `selected` map by design and is outside the property",
        "the resolver core is a Section variable with the stated frame hypothesis (writes only selected / the disqualification map it was handed; its result is a function of what is reachable from its handles) until it is discharged for Model/Resolver.v",
        "index identity is object identity (Go interface values holding pointers), modelled as positions in the universe",
        "index cache: the bytes of an index file and their parse are abstract (any parser), a file's modification time is what os.Stat reports; c08_index_cache_fresh assumes every rewrite moves it strictly forward (C08-F5 is what happens otherwise)",
        "slices.SortFunc on fewer than 12 elements is a stable insertion sort (Go 1.23 pdqsort), so equal-named indexes keep the map-iteration order of the concatenation in the trie path of the disqualification cache (a miss more or less; the answers do not depend on it since fix 3541d7b)",
        "the disqualification cache's two-level lookup (trie path, then the entry with an equal grouping) is modelled as the one-level cache of Model/Caches.v keyed by the pair (CachesGrouped.grouping_key); equal keys <-> the same trie path and the same Go map (both directions proved: c08_grouping_key_compatible, c08_grouping_key_same_map_same_key)",
    )
    level_text = ("Theorems about an executable model of the cache layer over an explicit store (references for selected / nameMap / installIfMap and their slices / "
                  "disqualification maps; the two tries; clone allocates exactly what PkgResolver.Clone and maps.Clone copy): c08_frame, c08_history_independent for every "
                  "history and call - for any key function of the disqualification cache under the grouping hypothesis, and WITHOUT proviso for the key the code uses since fix 3541d7b (trie path + grouping: c08_grouping_key_compatible, "
                  "c08_history_independent_every_history, c08_dq_handed_own_grouping: a request is handed the difference of its own grouping after every history; formerly refuted, finding C08-F2; the former key is refuted in "
                  "c08_dq_cache_concatenation_key_refuted) -, its failure with the clone removed, c08_memo_transparent, and - since fix c03e0c0 turned the install_if loop into a walk over the dependency list by index - c08_order_deterministic in full (one result, members and order, "
                  "for every universe, world and disqualification set; formerly refuted, findings C08-F1/F3) with c08_install_if_chain_complete (a package triggered by packages the loop itself "
                  "appended is appended too). The verified validator c08_validator_decides is run on the outcomes of the real "
                  "code after histories, on fresh caches and in fresh processes; the model of the disqualification trie is compared with the entries the real trie holds before and after every call. "
                  "Session 4: c08_clone_fresh - the clone function READ OFF PkgResolver.Clone's struct literal (clone_by_shape of the generated shape) and the trie keyed by the list as given: after every history a resolution through the cached, cloned resolver "
                  "equals one through a fresh resolver (refuted for `selected: p.selected` and for a sorted trie key); c08_index_cache_fresh - the local index cache is transparent for every history of rewrites and requests under any entries provided rewrites move the "
                  "modification time forward (refuted otherwise: finding C08-F5; refuted for per-path times); c08_index_list_schedule_independent - GetRepositoryIndexes returns repository order under every goroutine schedule; c08_remote_index_cache_fresh - the remote branch (cached per ETag, not cached without one) returns what the server holds at request time "
                  "provided an ETag names one content (refuted for a version header that does not: the Last-Modified second); "
                  "c08_install_if_request_complete / _versioned_complete - over a whole resolution every install_if package whose entries (literal names, or name=version under the side condition the code imposes) are met inside ONE request's "
                  "dependency list is installed (refuted across requests, for the requested package itself, and for a shadowed versioned key).")
    level_note = ("trusted: Coq kernel, Go harness/printer, the reset hook (cross-checked against fresh processes); modelled not verified: the Go text of the cache layer and of the resolver core; "
                  "data races and interleavings are explored with the race detector, not proved; correspondence is differential testing, not proof")
    design_ref = "DESIGN.md 7 C08"
    modelled_not_verified = ("indexCache.get's local and remote branches and GetRepositoryIndexes' collection are modelled by hand (Model/CachesIndex.v; shapes of the local branch and of the collection read by goextract; the remote branch sequentially: sync.Once / sync.Map concurrency is not modelled); "
                             "resolverCache.Get / disqualifyCache.Get / the memo tables are modelled by hand (Model/Caches.v; PkgResolver.Clone is generated field by field); the resolver core is abstract "
                             "(frame hypothesis) unless Model/Resolver.v is linked; sync.Mutex / sync.Map and the Go memory model are exercised by the conc stage under the race detector only")

PROP = P()
