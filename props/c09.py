import vlib

class P(vlib.Prop):
    id = "C09"
    coq_targets = ["Properties/C09.vo", "Corr/C09.vo", "Proofs/LockResolverBridge.vo"]
    watch = ("pkg/build/lock.go", "internal/cli/lock.go", "internal/cli/build.go", "pkg/build/installable_from_lock.go", "pkg/apk/apk/resolveapk.go")
    rule = ("unify stage: hand-picked corners, then generated per-architecture resolutions (1-3 architectures, versions/provides diverging "
            "with increasing probability, packages missing on some architectures, virtuals requested by provided name, pinned and "
            "operator-carrying originals, duplicates, malformed originals) through the real build.unify (verif hook), every input "
            "run 6 times so Go's map randomisation samples iteration orders; provname stage: pkg/build's packageNameRegex sub-match. "
            "api stage: synthetic signed repositories for 1-3 architectures (harness/synthrepo; versions present on some architectures only, "
            "virtuals requested by provided name, providers differing per architecture, tagged repositories with pinned requests, operators, "
            "duplicates, conflict entries of every kind (plain, versioned, against virtual and absent names), tagged packages that provide a virtual another package needs; corpus: every finding's replay incl. C09-F6 member-excluded-by-conflict-entry-of-member and C09-F8 pinned-virtual-provider-reached-through-unpinned-member) through build.NewMultiArch/BuildPackageLists and build.LockImageConfiguration (3-4 runs each), then every emitted lock "
            "resolved again (each per-architecture relock also by Model/Resolver.v: the ORDERED install list must equal the model's, which is a function of its inputs since fix c03e0c0); cli stage: `apko lock` (lock.json entries judged against the package files: ranges, sha1/sha256 recomputed over the "
            "recorded ranges) and `apko build` with and without --lockfile (installed database and image manifest; the order of lock.json and the install order of the unlocked build are "
            "compared with Model/Resolver.v on the request list resp. on the lock list of LockImageConfiguration - Model/LockBuild.v, the mechanism of C09-F5, corpus scenario install-order-of-lock-list-differs), including a repository that "
            "publishes a newer version after locking; wave 3: a lock file that outlives its configuration (built under five spellings of the configuration's path before and after an edit), "
            "packages with control scripts (members of lib/apk/db/scripts.tar of the locked and the unlocked image), and an image on top of the repository's base image with a rebuilt package in the repository. A case is non-trivial when it has >= 2 architectures and a non-empty request list; "
            "distinct = distinct case terms.")
    stages = (
        dict(name="unify", cmd="c09", args=lambda t, s: ["-stage", "unify"]),
        dict(name="provname", cmd="c09", args=lambda t, s: ["-stage", "provname"]),
        dict(name="api", cmd="c09", args=lambda t, s: ["-stage", "api"]),
        dict(name="cli", cmd="c09", args=lambda t, s: ["-stage", "cli"]),
    )
    assumptions = (
        "inputs of unify are as LockImageConfiguration builds them (packages = keys of versions; distinct architectures, none called 'index'); the harness also feeds ill-formed ones to the model comparison only",
        "expandapk reports the byte sizes of the three gzip members and sha1(signature), sha1(control), sha256(data): modelled by `expand` over hash parameters, checked against real .apk files by the cli stage",
        "c09_fixpoint_partial is about an abstract resolver with three stated hypotheses (sound, minimal, finds the solution of an exact lock); c09_fixpoint_resolver_partial examines them for Model/Resolver.v (the model C02/C08/C14 tie to repo.go by differential comparison) inside the envelope of c02_closed_partial: sound and minimal are proved, the third is refuted in general (C09-F6) and proved under three stated extra hypotheses",
        "c09_fixpoint_resolver_partial / c09_fixpoint_pinned_partial speak of ONE architecture's resolution and of the lock entries name=version[@pin] of its members in any order (arch_lock = what unify stores under that architecture); the cross-architecture intersection is the business of the unify theorems",
        "the pin of a lock entry is unify's own reading of the request (text from the first '@'); c09_unify_pin_is_spec_pin proves that it is the resolver grammar's reading (C03 model) on every request that matches packageNameRegex and is not rewritten by the soname special case (a so: name with '=' whose version lacks a release); the validators use spec_pin on all generated cases",
        "LockImageConfiguration visits the architectures in the order goextract reads from its loop (sorted key slice = 'sorted'); the sort key types.Architecture is taken to be the canonical OCI name that also becomes r.arch",
        "Model/LockBuild.v (where lock.json's order and the unlocked build's install order come from) is a hand-written reading of LockCmd / buildImage / buildImageComponents for one architecture without base image, tied to the CLI by the cli stage's ordered comparison",
    )
    level_text = ("c09_unify_index / c09_unify_per_arch / c09_unify_order_independent hold for every request list, every number of architectures and every "
                  "set/map iteration order of an executable model of build.unify whose delimiters, formats and sentinel key are regenerated from lock.go; "
                  "c09_ranges holds for all member contents over the range arithmetic translated from LockCmd and the field copies translated from NewAPKResolved; "
                  "c09_lock_entries_exact characterises what filterPackages admits for an exact entry (over the C03 constraint/version model); c09_lock_install is "
                  "about the model of the Lockfile branch; the fixpoint itself is stated in full and proved under hypotheses on an abstract resolver (c09_fixpoint_partial) "
                  "and, for the resolver model Model/Resolver.v inside the envelope of c02_closed_partial, c09_fixpoint_resolver_partial proves that every list of the lock "
                  "entries of a result resolves — when it resolves — to exactly the same members, and that it does resolve when every member answers its own entry, no member is "
                  "excluded by a member's conflict entry and dependencies are well-formed; c09_fixpoint_resolver_refuted shows that without the second condition it does not "
                  "(finding C09-F6, reproduced on the real code); c09_fixpoint_pinned_partial extends this to members of tagged repositories and entries name=version@tag (which entries carry a tag: unify_pin = spec_pin, only requested names; an untagged entry of a tagged member never resolves = C09-F1; it resolves when every tagged member carries its tag and is depended on by its own name only; c09_fixpoint_pinned_refuted: C09-F1 and the new C09-F8); c09_resolved_of_wf / c09_lock_image_configuration_inputs remove the well-formedness side condition for real calls; c09_unify_arch_order_lists_equal / _independent / c09_shared_lock_sorted_order_deterministic settle the order of the architectures (equal results whenever both orders succeed; same success when the architectures agree on the providers of the requested names; LockImageConfiguration a function of the set of resolutions since it sorts); c09_locked_vs_unlocked_install_order states the mechanism of C09-F5; c09_stale_lock_refused / c09_locked_and_unlocked_install_same_epoch / c09_base_image_lock_lists_what_is_installed are about the Lockfile branch of buildImage, ResolveWithBase's base filter and the installer's skip test as goextract reads them by shape (Generated/C09Build.v); the fixpoint is also searched for counterexamples on the real code end to end (findings C09-F1, F2, F4, F6, F7, F8). The model is tied to the code by differential comparison through a verif hook and "
                  "by validators evaluated in Coq on outputs of LockImageConfiguration, apko lock and apko build --lockfile.")
    level_note = ("trusted: Coq kernel, goextract, Go harness/printer, synthrepo's independent apk writer; modelled not verified: Go text of unify/LockCmd/"
                  "installablePackagesForArch/buildImageComponents, expandapk's member splitting, sets.Set/reflect.DeepEqual semantics, SetWorld's sorting; the resolver is the hand-written model of C02 (Model/Resolver.v), tied to repo.go by "
                  "C02's differential stage, and c09_fixpoint_resolver_partial holds only inside C02's envelope (one provider per name, no install_if, ...); correspondence is differential testing, not proof")
    design_ref = "DESIGN.md 7 C09"
    modelled_not_verified = ("unify, LockImageConfiguration's construction of its inputs, one lock.json entry, installablePackagesForArch and the version test of filterPackages "
                             "are modelled by hand (Model/Lock.v), as are the visiting order of the architectures (Model/LockArchOrder.v over the generated lock_archs_order) and the origin of the two install orders (Model/LockBuild.v); regex, delimiters, formats, sentinel, range arithmetic, field copies, the shape of LockImageConfiguration's architecture loop, the stale-lock guard, the epoch argument of both install calls, ResolveWithBase's in-base condition and the installer's skip test are regenerated from the source; "
                             "resolution, fetching, expandapk, JSON encoding and the image build are exercised end to end only")

PROP = P()
