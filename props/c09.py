import vlib

class P(vlib.Prop):
    id = "C09"
    rule = ("unify stage: hand-picked corners, then generated per-architecture resolutions (1-3 architectures, versions/provides diverging "
            "with increasing probability, packages missing on some architectures, virtuals requested by provided name, pinned and "
            "operator-carrying originals, duplicates, malformed originals) through the real build.unify (verif hook), every input "
            "run 6 times so Go's map randomisation samples iteration orders; provname stage: pkg/build's packageNameRegex sub-match. "
            "A case is non-trivial when it has >= 2 architectures and a non-empty request list; distinct = distinct (originals, inputs).")
    stages = (
        dict(name="unify", cmd="c09", args=lambda t, s: ["-stage", "unify"]),
        dict(name="provname", cmd="c09", args=lambda t, s: ["-stage", "provname"]),
        dict(name="api", cmd="c09", args=lambda t, s: ["-stage", "api"]),
        dict(name="cli", cmd="c09", args=lambda t, s: ["-stage", "cli"]),
    )
    assumptions = ()
    level_text = ""
    level_note = ""
    design_ref = "DESIGN.md 7 C09"
    modelled_not_verified = ""

PROP = P()
