import vlib

class P(vlib.Prop):
    id = "C10"
    rule = ("groups stage: hand-picked package sets (budgets 0..n+1, negative and out-of-range budgets, equal sizes, same origin, replaces chains / "
            "self / mutual / unsatisfied / absent / unparsable versions) then random sets of 0..32 packages (quick 300, thorough 10000); the real "
            "groupByOriginAndSize is run 8 times per input so that Go's map randomisation samples iteration orders; every run must equal the model "
            "and is judged by the grouping validator. split stage: tarfs filesystems whose files are owned by packages through tarfs.WriteHeader "
            "(shared and deeply nested directories, unowned files, symlinks, recorded hard links, char devices), grouped by the real grouping with "
            "budgets 0..n+2 (quick 150, thorough 2000): the real splitLayers and the real single-layer writer run, every layer is untarred by the "
            "harness's own reader, compared with the model and judged by the layer validator (flatten = single layer, each file exactly once in its "
            "owner's layer, per-layer parent directories, layer count); digests of every layer are recomputed. Non-trivial: >= 2 packages / >= 3 nodes.")
    stages = (
        dict(name="groups", cmd="c10", args=lambda t, s: ["-stage", "groups"]),
        dict(name="split", cmd="c10", args=lambda t, s: ["-stage", "split"]),
        dict(name="e2e", cmd="c10", args=lambda t, s: ["-stage", "e2e"]),
    )
    watch = ("pkg/build/layers.go", "pkg/build/tarball.go", "pkg/build/build.go", "pkg/tarfs/fs.go")
    assumptions = (
        "package names in the installed set are distinct (the model carries the partition reachable from Go's byOrigin/byPackage maps)",
        "directories carry no owning package (tarfs gives only regular files, symlinks and hard links a tar entry); c10_flatten states it as a hypothesis and the harness reports a directory with an owner",
        "apk.ResolvePackageNameVersionPin / ParseVersion / SatisfiedBy are functions supplied from outside (tabulated from the real functions per case)",
        "InstalledSize sums do not overflow uint64",
        "a budget of 0 yields one group plus the top layer (the code's stated intent), read as within 'budget plus the top layer' only for budget >= 1",
    )
    level_text = ("Proved, about an executable model of groupByOriginAndSize/merge/replacesGroup and splitLayers/alignStacks, for every package list with distinct "
                  "names, every budget, every ownership map and every list of entries: c10_group_count (at most max(budget,1) groups, any budget), "
                  "c10_negative_budget_one_group (the code after fix d47e591; a panic is tagged viol:grouping-panics), c10_groups_partition_partial (each package in exactly one group, for EVERY iteration order of replaceMap and "
                  "of maps.Values(byOrigin)), c10_each_file_once (the non-directory entries of layer i are exactly, in order, once and unchanged, those whose owner's group "
                  "is i, top layer for unowned; every entry incl. directories is written unchanged to its own layer), c10_flatten_partial (ingredients of flattening that "
                  "need no stack invariant). NOT proved: c10_layers_wellformed and the equation of c10_flatten (they need the main-stack/layer-stack chain invariant), "
                  "same-origin/replaces co-location and full order-invariance of the grouping; these are computed on the implementation's real output on every run by the "
                  "validators (reference extractor on the concatenated layers = single-layer tree; per-layer parent directories; grouping clauses; 8 repetitions per input). "
                  "The validators for C10 are boolean transcriptions of LayersOk/GroupsOk without a proved equivalence (C06's validator has one).")
    level_note = ("trusted: Coq kernel, Go harness/printer and its tar reader; modelled not verified: Go text of layers.go, the apk version functions (tabulated), "
                  "archive/tar and pgzip; correspondence is differential testing; end-to-end through Context.BuildLayers with real packages is not run")
    design_ref = "DESIGN.md 7 C10/C06, Appendix A.3"
    modelled_not_verified = ("groupByOriginAndSize, merge, replacesGroup, splitLayers and alignStacks are modelled by hand (Model/Layers.v); pointer identity of "
                             "groups and of *file stack elements is modelled by package-name membership and path equality; buildLayers' strategy/base-image checks "
                             "and Context.BuildLayers are not exercised")

PROP = P()
