import vlib

class P(vlib.Prop):
    id = "C10"
    rule = ("groups stage: hand-picked package sets (budgets 0..n+1, negative and out-of-range budgets, equal sizes, same origin, replaces chains / "
            "self / mutual / unsatisfied / absent / unparsable versions) then random sets of 0..32 packages (quick 300, thorough 10000); the real "
            "groupByOriginAndSize is run 8 times per input so that Go's map randomisation samples iteration orders; every run must equal the model "
            "and is judged by the grouping validator. split stage: tarfs filesystems whose files are owned by packages through tarfs.WriteHeader "
            "(shared and deeply nested directories, unowned files, symlinks, recorded hard links, char devices), grouped by the real grouping with "
            "budgets 0..n+2 (quick 150, thorough 2000): the real splitLayers and the real single-layer writer run, every layer is untarred by the "
            "harness's own reader, compared with the model and judged by the layer validator (flatten = single layer, each file exactly once in its "
            "owner's layer, per-layer parent directories, layer count); digests of every layer are recomputed. e2e stage: build.New + Context.BuildLayers "
            "in process on tarfs with signed synthrepo packages (shared/nested directories, two packages of one origin, satisfied/unsatisfied/absent "
            "replaces, hard link, symlink, setuid, xattr, a base-layout package shipping etc/passwd, etc/group, etc/os-release), variants accounts / path "
            "mutations / contents.build_repositories / extra build repositories, budgets 0..n+1 (quick 48 builds, thorough 160), each configuration also "
            "built without a layering block: judged by the same verified validator with OWNERSHIP TAKEN FROM THE PACKAGES' OWN FILE LISTS (not from tarfs's "
            "Package()) and the groups of the real grouping on the packages of the image's installed database; flatten compared modulo the content of "
            "etc/apko.json; layer count against the budget. Non-trivial: >= 2 packages / >= 3 nodes / >= 5 entries.")
    stages = (
        dict(name="groups", cmd="c10", args=lambda t, s: ["-stage", "groups"]),
        dict(name="split", cmd="c10", args=lambda t, s: ["-stage", "split"]),
        dict(name="e2e", cmd="c10", args=lambda t, s: ["-stage", "e2e"]),
    )
    watch = ("pkg/build/layers.go", "pkg/build/tarball.go", "pkg/build/build.go", "pkg/tarfs/fs.go")
    assumptions = (
        "package names in the installed set are distinct (the model carries the partition reachable from Go's byOrigin/byPackage maps)",
        "directories carry no owning package (tarfs gives only regular files, symlinks and hard links a tar entry); c10_flatten states it as a hypothesis (shown necessary) and the harness reports a directory with an owner",
        "a hard link is owned by its target's package and listed after it (tarfs: a link shares the node; C06: a link before its target is not extractable); c10_flatten states it (LinksWithTarget, shown necessary)",
        "apk.ResolvePackageNameVersionPin / ParseVersion / SatisfiedBy are functions supplied from outside (tabulated from the real functions per case)",
        "InstalledSize sums do not overflow uint64",
        "a budget of 0 yields one group plus the top layer (the code's stated intent), read as within 'budget plus the top layer' only for budget >= 1",
    )
    level_text = ("Proved, about an executable model of groupByOriginAndSize/merge/replacesGroup and splitLayers/alignStacks. Grouping, for every package list with "
                  "distinct names, every budget and every iteration order of the Go maps: c10_group_count, c10_negative_budget_one_group, c10_groups_partition (FULL: "
                  "each package in exactly one group; same origin => same group; satisfied replaces => same group), c10_group_order_invariant (FULL: the same list "
                  "of groups, and the same error behaviour, for all orders), c10_groups_ok (GroupsOk for budget <> 0; budget 0 is finding C10-F1). Layers, for every "
                  "sequence in the envelope WalkSeq (c10_walk_in_envelope: the walk of every tree with distinct child names), every grouping and ownership map: "
                  "c10_each_file_once (FULL), c10_layers_wellformed (FULL: parents first, no path twice, in every layer), c10_flatten (FULL incl. hard-link entries whose "
                  "target is an earlier non-directory with the same owner; directories unowned: the reference extractor accepts the layers in order and the single "
                  "layer and yields the same canonical tree), c10_flatten_walk (= the tree, C06 envelope), c10_layers_ok (LayersOk); both side conditions of c10_flatten "
                  "are shown necessary by refutations. The validators decide the specification (c10_groups_validator_decides, c10_layers_validator_decides, both <->). "
                  "On every run the real code's output is compared with the model (groups, split) and judged by these validators (groups, split, e2e).")
    level_note = ("trusted: Coq kernel, Go harness/printer and its tar reader, synthrepo; modelled not verified: Go text of layers.go, the apk version functions (tabulated), "
                  "archive/tar and pgzip; correspondence is differential testing; Context.BuildLayers (buildImage, postBuildSetApk, installer, mutateAccounts) is exercised "
                  "end to end and judged on its outputs, not modelled")
    design_ref = "DESIGN.md 7 C10/C06, Appendix A.3"
    modelled_not_verified = ("groupByOriginAndSize, merge, replacesGroup, splitLayers and alignStacks are modelled by hand (Model/Layers.v); pointer identity of "
                             "groups and of *file stack elements is modelled by package-name membership and path equality (the in-place mutation of a stack element's "
                             "ModTime is unobservable and not modelled); Context.buildLayers itself (strategy/base-image/negative-budget checks, buildImage, "
                             "postBuildSetApk) is run end to end but has no Coq model")

PROP = P()
