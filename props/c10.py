import vlib

class P(vlib.Prop):
    id = "C10"
    rule = ("groups stage: hand-picked package sets (budgets 0..n+1, negative and out-of-range budgets, equal sizes, same origin, replaces chains / "
            "self / mutual / unsatisfied / absent / unparsable versions, packages WITHOUT an origin with replaces into and out of their shared group, "
            "InstalledSize sums that wrap around 2^64: two halves, max+1, wrapped ties, through replaces) then random sets of 0..32 packages (quick 300, "
            "thorough 10000; 1/6 without origin, 1/12 with a size near 2^63/2^64); the real groupByOriginAndSize is run 8 times per input so that Go's map "
            "randomisation samples iteration orders; every run must equal the model and is judged by the grouping validator. split stage: tarfs filesystems "
            "whose files are owned by packages through tarfs.WriteHeader (shared and deeply nested directories, sibling directories whose names are string "
            "prefixes of each other, unowned files, symlinks, a symlink-only package, recorded hard links across directories and naming other links, char "
            "devices), grouped by the real grouping with budgets 0..n+2 (quick 150, thorough 2000): the real splitLayers and the real single-layer writer run, "
            "every layer is untarred by the harness's own reader, compared with the model and judged by the layer validator (flatten = single layer, each file "
            "exactly once in its owner's layer, per-layer parent directories, hard-link targets earlier in the link's own layer, layer count); digests of every "
            "layer are recomputed. e2e stage: build.New + Context.BuildLayers in process on tarfs (behind a recording wrapper) with signed synthrepo packages "
            "(universes shared: shared/nested directories, two packages of one origin, satisfied/unsatisfied/absent replaces, hard link, symlink, setuid, xattr, "
            "a base-layout package shipping etc/passwd, etc/group, etc/os-release; links: busybox-style hard-linked applets in several directories, a symlink-only "
            "package of installed size 0, two packages without origin one of which replaces a package with one, prefix sibling directories, a `busybox` package "
            "whose manifest makes apko create unowned applet symlinks), variants accounts / path mutations / contents.build_repositories / extra build "
            "repositories, budgets 0..n+1 (quick 80 builds, thorough 290), each configuration also built without a layering block: judged by the same verified "
            "validator with OWNERSHIP TAKEN FROM THE PACKAGES' OWN FILE LISTS (not from tarfs's Package()) and the groups of the real grouping on the packages of "
            "the image's installed database; flatten compared modulo the content of etc/apko.json; layer count against the budget; the ORDER of the build steps "
            "observed on the filesystem interface (installer, accounts, apko.json, path mutations, busybox links, SetRepositories, start of the walk) must be the "
            "order the step model (goextract -> Generated/C10Steps.v, Model/BuildSteps.v) gives for the configuration. Non-trivial: >= 2 packages / >= 3 nodes / >= 5 entries.")
    stages = (
        dict(name="groups", cmd="c10", args=lambda t, s: ["-stage", "groups"]),
        dict(name="split", cmd="c10", args=lambda t, s: ["-stage", "split"]),
        dict(name="e2e", cmd="c10", args=lambda t, s: ["-stage", "e2e"]),
    )
    watch = ("pkg/build/layers.go", "pkg/build/tarball.go", "pkg/build/build.go", "pkg/build/build_implementation.go", "pkg/build/apk.go", "pkg/tarfs/fs.go")
    assumptions = (
        "package names in the installed set are distinct (the model carries the partition reachable from Go's byOrigin/byPackage maps)",
        "directories carry no owning package (tarfs gives only regular files, symlinks and hard links a tar entry); c10_flatten states it as a hypothesis (shown necessary) and the harness reports a directory with an owner",
        "a hard link is owned by its target's package and listed after it (tarfs: a link shares the node; C06: a link before its target is not extractable); c10_flatten / c10_flatten_walk_links / c10_layers_self_contained state it (LinksWithTarget, LinksShareOwner; shown necessary)",
        "apk.ResolvePackageNameVersionPin / ParseVersion / SatisfiedBy are functions supplied from outside (tabulated from the real functions per case)",
        "InstalledSize of one package is below 2^64 (a uint64); sums wrap modulo 2^64 in the model as in the code",
        "a budget of 0 yields one group plus the top layer (the code's stated intent), read as within 'budget plus the top layer' only for budget >= 1",
        "c10_build_serialises_same_state / c10_build_flatten: what each build step does to the filesystem is a parameter (any semantics related step by step, reads acting as the identity); only the ORDER of the steps is read from the source",
    )
    level_text = ("Proved, about an executable model of groupByOriginAndSize/merge/replacesGroup (uint64 size wrap included), splitLayers/alignStacks and of the step order of "
                  "Context.BuildLayers. Grouping, for every package list with distinct names, every budget, every size and every iteration order of the Go maps: c10_group_count, "
                  "c10_negative_budget_one_group, c10_groups_partition (FULL: each package in exactly one group; same origin => same group; satisfied replaces => same group), "
                  "c10_group_order_invariant (FULL), c10_groups_ok (GroupsOk for budget <> 0; budget 0 is finding C10-F1); c10_size_wraps (sort key = sum mod 2^64), "
                  "c10_groups_descending (FULL, wrapped sizes), c10_groups_descending_true_size_partial (true sizes when no sum reaches 2^64) and _refuted (2^63 + 2^63). Layers, for every "
                  "sequence in the envelope WalkSeq, every grouping and ownership map: c10_each_file_once (FULL), c10_layers_wellformed (FULL), c10_layers_self_contained (FULL: every hard "
                  "link's target is an earlier non-directory of the link's own layer), c10_flatten (FULL incl. hard-link entries), c10_flatten_walk and c10_flatten_walk_links (the layers of the "
                  "walk of a tree — with recorded hard links, C06's envelope wfl_forest, links owned like their targets — ARE the tree), c10_layers_ok / c10_layers_ok_walk_links (LayersOk, five "
                  "clauses); every side condition is shown necessary by a refutation. Build order, for every configuration (valuation of the condition texts read from the source): "
                  "c10_build_order (both builds serialise after the same filesystem-changing steps, nothing after), c10_repositories_rewritten_last, c10_build_arguments, "
                  "c10_build_serialises_same_state, c10_build_flatten, c10_only_apko_json_sees_layering (read from the source: the only filesystem-changing step that can see the "
                  "layering block is WriteEtcApkoConfig) and c10_build_serialises_same_state_src (the step-by-step hypothesis reduced to that step). The validators decide the specification (c10_groups_validator_decides, c10_layers_validator_decides, both <->). "
                  "On every run the real code's output is compared with the model (groups, split, observed step order) and judged by these validators (groups, split, e2e).")
    level_note = ("trusted: Coq kernel, Go harness/printer and its tar reader, synthrepo, the recording filesystem wrapper; modelled not verified: Go text of layers.go, the apk version "
                  "functions (tabulated), archive/tar and pgzip; the step lists of the build are read from the source by goextract (call order, conditions, arguments), what each step does is "
                  "a parameter of the theorems and is exercised end to end (installer, mutateAccounts, mutatePaths, busybox links, SetRepositories), not modelled; correspondence is "
                  "differential testing")
    design_ref = "DESIGN.md 7 C10/C06, Appendix A.3"
    modelled_not_verified = ("groupByOriginAndSize, merge, replacesGroup, splitLayers and alignStacks are modelled by hand (Model/Layers.v); pointer identity of "
                             "groups and of *file stack elements is modelled by package-name membership and path equality (the in-place mutation of a stack element's "
                             "ModTime is unobservable and not modelled); of Context.BuildLayers / BuildLayer / buildLayers / buildImage / postBuildSetApk the ORDER and the "
                             "conditions of the calls are translated by goextract (Generated/C10Steps.v) and compared with the observed order of effects; the effect of each "
                             "step (installer, account and path mutations, s6, busybox links, char devices, SetRepositories) has no Coq model")

PROP = P()
