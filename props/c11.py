import vlib

class P(vlib.Prop):
    id = "C11"
    watch = ("pkg/sbom/generator/spdx/spdx.go", "pkg/build/sbom.go", "pkg/sbom/options/options.go")
    rule = ("ident stage: stringToIdentifier on hand-picked strings, all 256 single bytes (alone and embedded), random byte strings; "
            "generate stage: the real spdx.Generate on a corpus of corners (no image digest, several layers, colliding identifiers incl. three on one id, a numbered id that is itself taken, an imported element squatting on a later apk's id (regression replays of C11-F1), "
            "embedded SBOMs located by each of the three candidate paths, unparseable / directory / missing-element documents, chains and "
            "cycles, shared elements, replacePackage(id,id), several described elements) and on random installed sets "
            "(names/versions over an alphabet with characters outside [a-zA-Z0-9.-], provoked collisions, long lists) with and without "
            "package-embedded SBOMs of random relationship graphs written to an in-memory filesystem under var/lib/db/sbom; the emitted "
            "JSON is parsed and handed to Coq; index stage: the real GenerateIndex; repl/copy stages: replacePackage and copySBOMElements "
            "on random small documents; e2e stage: a real `apko build` through the CLI against a synthetic signed repository (odd names/versions, "
            "packages recorded as noarch and for the other architecture, embedded SBOMs found by each candidate file name incl. the <name>.spdx.json "
            "fallback, single/multi-layer, one/two architectures): layers, image and index digests are recomputed from the OCI layout blobs, the "
            "installed database / os-release / embedded SBOMs are read from the flattened layers, the emitted sbom-<arch>.spdx.json and "
            "sbom-index.spdx.json are compared with the model run THROUGH the provenance model of pkg/build/sbom.go (Model/SbomProv.v over what "
            "goextract traced) and judged by the validators against the directly written expected input; lic stage: mergeLicensingInfos on "
            "hand-picked and random (source, target) pairs (conflicts, duplicates, first-of-id decides) and Generate on embedded documents with "
            "hasExtractedLicensingInfos (shared infos, conflicting texts, unused documents, no target, failing copy). The lic stage also runs readReleaseData on in-memory filesystems with and without etc/os-release (comments, CRLF, quotes inside and "
            "around values, repeated keys, spaces around =, lines without =, invalid UTF-8, random token soups); the e2e stage hands Coq the os-release CONTENT of the "
            "flattened image and the model parses it (release_version_of) to get the version every layer element must carry. The generate and e2e stages "
            "print the distribution of embedded-SBOM shapes (candidate file name, described / target / same-name element counts, graph depth, "
            "copy sweeps, cycles, File- relationships, undefined references) and the generate stage refuses to run if its corpus lacks one of them. "
            "A case is non-trivial when the installed set / image list / todo set / source infos are non-empty (ident: when the "
            "output differs from the input); distinct = distinct case terms.")
    stages = (
        dict(name="ident", cmd="c11", args=lambda t, s: ["-stage", "ident"]),
        dict(name="generate", cmd="c11", args=lambda t, s: ["-stage", "generate"]),
        dict(name="index", cmd="c11", args=lambda t, s: ["-stage", "index"]),
        dict(name="repl", cmd="c11", args=lambda t, s: ["-stage", "repl"]),
        dict(name="copy", cmd="c11", args=lambda t, s: ["-stage", "copy"]),
        dict(name="e2e", cmd="c11", args=lambda t, s: ["-stage", "e2e"]),
        dict(name="lic", cmd="c11", args=lambda t, s: ["-stage", "lic"]),
    )
    assumptions = (
        "names, versions and embedded documents are valid UTF-8 (encoding/json replaces invalid bytes by U+FFFD on the way out); stringToIdentifier itself is checked on arbitrary bytes",
        "package names contain no '/' (the embedded-SBOM lookup is modelled as a map from file name to content)",
        "the embedded documents' own element ids are valid SPDX ids; licence references inside packages (licenseConcluded/licenseDeclared) are not modelled, only the extracted licensing infos they point to",
        "img.Manifest().Layers / img.Digest() are the manifest and digest of the image that is written (C06/C12 cover those; the e2e stage recomputes them from the layout blobs); that GenerateImageSBOM/GenerateIndexSBOM hand them over unchanged is modelled (Model/SbomProv.v), read from the source by goextract and proved (c11_image_sbom_inputs, c11_index_sbom_inputs)",
        "the images map of GenerateIndexSBOM has pairwise distinct architecture strings (it is a Go map keyed by architecture); under that the order of the index document does not depend on map iteration (c11_index_sbom_inputs)",
        "lines of /etc/os-release are shorter than bufio.MaxScanTokenSize (64 KiB; a longer line makes the real scanner fail) and the file is a regular file",
        "Go ranges over the targetElementIDs map in an arbitrary order: the model takes the order as a parameter, theorems quantify over it, the harness collects every outcome of 200 runs when a document describes several elements",
    )
    level_text = ("Theorems c11_* hold for every input (unbounded package lists, names, embedded graphs, every map iteration order) about an executable model of "
                  "spdx.go whose identifier alphabet is the regular expression goextract reads from the source on every run; the model is tied to the code by "
                  "differential comparison of whole documents (packages with id/name/version/checksums, relationships, described ids, extracted licensing infos) and the verified validators "
                  "(ids unique, id syntax, references resolve, agreement with the installed list, digests, licensing infos preserved) are run on the documents the real code emits. "
                  "c11_one_per_apk: without embedded SBOMs every installed apk has exactly one element and the ids are distinct for EVERY set of pairwise distinct (name, version), colliding identifiers included (the defect C11-F1, fixed in /repo by 7c2586e, is kept as the regression replay c11_one_per_apk_collision_fixed and as corpus cases; c11_repair_conservative: nothing changes where the ids were distinct). "
                  "The inputs of the generator are inside the model: c11_image_sbom_inputs / c11_all_installed_handed_over / c11_index_sbom_inputs state that pkg/build/sbom.go hands over the built "
                  "image's digest, its manifest's layers, every installed paragraph whatever its architecture field, and every image of the index in architecture order; they compute with the "
                  "assignment sources goextract traces in sbom.go on every run. readReleaseData (Model/SbomRelease.v): c11_os_release_fields - for every file content ID / NAME / VERSION_ID are what the LAST assigning line assigns (text before the first =, value without surrounding double quotes), empty when never assigned; c11_os_release_fails_iff_malformed - error exactly on a line without =. mergeLicensingInfos: union keyed by id, target first, every source info kept with its text, failure exactly on a conflict.")
    level_note = ("trusted: Coq kernel, goextract (incl. its tracing of single-definition locals in sbom.go), Go harness/printer, encoding/json; modelled not verified: the Go text of spdx.go, "
                  "Go regexp (maximal runs of a character class), apkfs.MemFS lookups, sort.Slice (any sorted permutation), GetInstalled / Manifest / Digest themselves; correspondence is differential testing, not proof")
    design_ref = "DESIGN.md 7 C11"
    modelled_not_verified = ("stringToIdentifier, Generate, ProcessInternalApkSBOM, copySBOMElements, replacePackage, the final de-duplication and GenerateIndex are "
                             "modelled by hand (Model/Sbom.v; whether and how Generate numbers an id that is taken — fix 7c2586e — is regenerated: Generated/C11Prov.apk_id_policy, read from the loop between stringToIdentifier and the append and from idTakenByAnother), mergeLicensingInfos and its place in the apk loop in Model/SbomLic.v; validIDCharsRe is regenerated from spdx.go; the provenance of "
                             "the generator's inputs in pkg/build/sbom.go is regenerated (Generated/C11Prov.v) and interpreted by Model/SbomProv.v; purls, licence expressions of packages, "
                             "suppliers, creation info, document name and the SBOM file names are not modelled; readReleaseData is modelled by hand (Model/SbomRelease.v; its key names and defaults are not regenerated)")

PROP = P()
