import vlib

class P(vlib.Prop):
    id = "C11"
    watch = ("pkg/sbom/generator/spdx/spdx.go", "pkg/build/sbom.go", "pkg/sbom/options/options.go")
    rule = ("ident stage: stringToIdentifier on hand-picked strings, all 256 single bytes (alone and embedded), random byte strings; "
            "generate stage: the real spdx.Generate on a corpus of corners (no image digest, several layers, colliding identifiers, "
            "embedded SBOMs located by each of the three candidate paths, unparseable / directory / missing-element documents, chains and "
            "cycles, shared elements, replacePackage(id,id), several described elements) and on random installed sets "
            "(names/versions over an alphabet with characters outside [a-zA-Z0-9.-], provoked collisions, long lists) with and without "
            "package-embedded SBOMs of random relationship graphs written to an in-memory filesystem under var/lib/db/sbom; the emitted "
            "JSON is parsed and handed to Coq; index stage: the real GenerateIndex; repl/copy stages: replacePackage and copySBOMElements "
            "on random small documents. A case is non-trivial when the installed set / image list / todo set is non-empty (ident: when the "
            "output differs from the input); distinct = distinct case terms.")
    stages = (
        dict(name="ident", cmd="c11", args=lambda t, s: ["-stage", "ident"]),
        dict(name="generate", cmd="c11", args=lambda t, s: ["-stage", "generate"]),
        dict(name="index", cmd="c11", args=lambda t, s: ["-stage", "index"]),
        dict(name="repl", cmd="c11", args=lambda t, s: ["-stage", "repl"]),
        dict(name="copy", cmd="c11", args=lambda t, s: ["-stage", "copy"]),
        dict(name="e2e", cmd="c11", args=lambda t, s: ["-stage", "e2e"]),
        dict(name="lic", cmd="c11", args=lambda t, s: ["-stage", "lic"]),
    )
    assumptions = (
        "names, versions and embedded documents are valid UTF-8 (encoding/json replaces invalid bytes by U+FFFD on the way out); stringToIdentifier itself is checked on arbitrary bytes",
        "package names contain no '/' (the embedded-SBOM lookup is modelled as a map from file name to content)",
        "embedded documents carry no hasExtractedLicensingInfos (mergeLicensingInfos is not modelled) and their own element ids are valid SPDX ids",
        "the digests handed to Generate/GenerateIndex are the real ones (pkg/build/sbom.go passes the manifest's layer descriptors and img.Digest(); C06/C12 cover those)",
        "Go ranges over the targetElementIDs map in an arbitrary order: the model takes the order as a parameter, theorems quantify over it, the harness collects every outcome of 200 runs when a document describes several elements",
    )
    level_text = ("Theorems c11_* hold for every input (unbounded package lists, names, embedded graphs, every map iteration order) about an executable model of "
                  "spdx.go whose identifier alphabet is the regular expression goextract reads from the source on every run; the model is tied to the code by "
                  "differential comparison of whole documents (packages with id/name/version/checksums, relationships, described ids) and the verified validators "
                  "(ids unique, id syntax, references resolve, agreement with the installed list, digests) are run on the documents the real code emits.")
    level_note = ("trusted: Coq kernel, goextract, Go harness/printer, encoding/json; modelled not verified: the Go text of spdx.go, Go regexp (maximal runs of a character class), "
                  "apkfs.MemFS lookups; correspondence is differential testing, not proof")
    design_ref = "DESIGN.md 7 C11"
    modelled_not_verified = ("stringToIdentifier, Generate, ProcessInternalApkSBOM, copySBOMElements, replacePackage, the final de-duplication and GenerateIndex are "
                             "modelled by hand (Model/Sbom.v); validIDCharsRe is regenerated from spdx.go; purls, licences, suppliers, creation info, "
                             "mergeLicensingInfos and the inputs' provenance in pkg/build/sbom.go are not modelled")

PROP = P()
