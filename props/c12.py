import vlib

class P(vlib.Prop):
    id = "C12"
    watch = ("pkg/build/oci/index.go", "pkg/build/oci/image.go", "pkg/build/types/types.go", "pkg/build/types/image_configuration.go")
    rule = ("bundle stage: the real oci.BuildIndex over 1/2/3/9 architectures, 1-3 layers per image and tag lists whose lengths are solved so that "
            "len(manifest.json) mod 512 takes chosen residues (quick: 0,1,2,7,100,255,256,257,400,505,506,509,510,511 + 10 seeded; thorough: all 512), "
            "first case = replay of fixed defect 4f724ff (residue 0); every bundle is re-read with archive/tar to its end, every digest/size/diff-id is recomputed "
            "(EXPLORATION, reported as IMPL-VIOLATION lines), and (pos,size,observed append offset, per-image inclusion) go to Coq; "
            "artifacts stage: image tarballs and OCI layouts re-read and re-hashed (EXPLORATION), generated indexes over architecture subsets compared with the model; "
            "config stage: generated ImageConfigurations through oci.BuildImageFromLayer(s), config JSON read back, compared with the model and judged by the validator inside Coq. "
            "A case is non-trivial unless marked; distinct = distinct inputs.")
    stages = (
        dict(name="bundle", cmd="c12", args=lambda t, s: ["-stage", "bundle"]),
        dict(name="artifacts", cmd="c12", args=lambda t, s: ["-stage", "artifacts"]),
        dict(name="config", cmd="c12", args=lambda t, s: ["-stage", "config"]),
        dict(name="scan", cmd="c12", args=lambda t, s: ["-stage", "scan"]),
        dict(name="time", cmd="c12", args=lambda t, s: ["-stage", "time"]),
        dict(name="shlex", cmd="c12", args=lambda t, s: ["-stage", "shlex"]),
    )
    assumptions = (
        "descriptor digests/sizes, diff-ids, JSON and tar encodings are computed by go-containerregistry / cosign / archive/tar and are outside the model: they are re-read and recomputed by the harness (exploration, not proof)",
        "shlex.Split and time.Format(RFC3339) are Section variables of the model; the correspondence instantiates them with the results of the real functions on the strings of each case",
        "Go map iteration order is an explicit permutation parameter quantified in c12_env / c12_index / c12_config_mapping",
        "int64 arithmetic in BuildIndex is modelled on Z; c12_append_offset bounds the result by pos+size+512, so no wrap-around below 2^63-512",
        "the bytes between the end of manifest.json and the append offset are the zero padding go-containerregistry's tar writer already wrote (BuildIndex seeks back over the end-of-archive marker); the harness observes the first non-zero byte after manifest.json, also over a stale longer output file",
    )
    level_text = ("Theorems about an executable model of the OCI emitters' own logic, whose constants, tables and append-offset arithmetic are regenerated from "
                  "index.go / image.go / types.go on every run: c12_append_offset (for all positions and sizes the offset BuildIndex seeks to is the least multiple of 512 "
                  "at or after the end of the last member), c12_env, c12_config_mapping, c12_platform_table (whole generated switch tables), c12_index (for every map "
                  "iteration order). Two full statements are proved under a source fact that goextract re-reads on every run and that is false today, refuted while it is false, "
                  "and accompanied by an unconditional partial theorem: c12_bundle_complete (BuildIndex's tag key ignores Platform.Variant, finding C12-F1: arm/v6 is dropped "
                  "when arm/v7 is present) and c12_config_mapping (the MergeInto copy drops VCSUrl, finding C12-F2: source/revision labels never written). The model is tied to the code by differential comparison on real BuildIndex / BuildImageFromLayers / GenerateIndex runs.")
    level_note = ("trusted: Coq kernel, goextract, Go harness/printer; modelled not verified: Go text of BuildIndex/BuildImageFromLayers/generateIndexWithMediaType; "
                  "EXPLORATION only (not proof): byte-level well-formedness — tar readability, sha256/size of every descriptor, config diff-ids vs layers, produced by "
                  "go-containerregistry/cosign/archive/tar — re-read and recomputed by the harness over a sweep of manifest.json lengths mod 512; shlex and RFC3339 formatting are oracles")
    design_ref = "DESIGN.md 7 C12"
    modelled_not_verified = ("BuildIndex's offset arithmetic is translated statement by statement by goextract (Base/C12Lib.stmt), the rest of BuildIndex, BuildImageFromLayers, "
                             "generateIndexWithMediaType, ParseArchitecture/ToAPK/ToOCIPlatform control flow is modelled by hand (Model/Oci.v) over generated tables; "
                             "go-containerregistry, cosign, archive/tar, encoding/json, shlex are exercised by the harness only")

PROP = P()
