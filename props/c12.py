import vlib

class P(vlib.Prop):
    id = "C12"
    watch = ("pkg/build/oci/index.go", "pkg/build/oci/image.go", "pkg/build/types/types.go", "pkg/build/types/image_configuration.go", "pkg/build/options.go")
    rule = ("bundle stage: the real oci.BuildIndex over 1/2/3/9 architectures, 1-3 layers per image and tag lists whose lengths are solved so that "
            "len(manifest.json) mod 512 takes chosen residues (quick: 0,1,2,7,100,255,256,257,400,505,506,509,510,511 + 10 seeded; thorough: all 512), "
            "first case = replay of fixed defect 4f724ff (residue 0); every bundle is re-read with archive/tar to its end, every digest/size/diff-id is recomputed "
            "(EXPLORATION, reported as IMPL-VIOLATION lines), and (pos,size,observed append offset, per-image inclusion) go to Coq; "
            "artifacts stage: image tarballs and OCI layouts re-read and re-hashed (EXPLORATION), generated indexes over architecture subsets compared with the model; "
            "config stage: generated ImageConfigurations (optionally through ImageConfiguration.Validate first, as build.New does; 0-7 layers; creation times in UTC, with zones and "
            "fractions, at the ends of and beyond the serialisable range) through oci.BuildImageFromLayer(s); config JSON incl. the created text and the history read back, compared "
            "with the model (splitter and time printers modelled) and judged by the validators inside Coq; "
            "scan stage: archives written by archive/tar (USTAR/PAX/GNU, extension and global headers, header-only members, hand-patched out-of-envelope archives) and real BuildIndex "
            "bundles: raw block walk vs the standard reader on the *os.File vs the model of its position bookkeeping; "
            "time stage: real Format(RFC3339)/MarshalJSON/Parse vs the model and the Spec's parser on corner seconds (epoch, leap days, century rules, month and year boundaries, "
            "both ends of years 0..9999 and beyond, zones, fractions) and seeded ones; shlex stage: real shlex.Split vs the model on hand-picked command lines (quotes, escapes, "
            "comments, unterminated quotes, invalid UTF-8), seeded strings over a quoting alphabet, plain strings and single-quoted word lists; "
            "options stage: configuration annotations x --annotations maps (same key on both sides, one side only, nil/empty maps, emitter-owned keys), the option given 0-3 times, "
            "date options in every order with and without SOURCE_DATE_EPOCH (given as text: signs, blanks, Unicode white space, other bases, int64 limits), through the real build.New (offline) and the real emitters: every command-line annotation must be the emitted "
            "label / manifest annotation / index annotation. "
            "A case is non-trivial unless marked; distinct = distinct inputs.")
    stages = (
        dict(name="bundle", cmd="c12", args=lambda t, s: ["-stage", "bundle"]),
        dict(name="artifacts", cmd="c12", args=lambda t, s: ["-stage", "artifacts"]),
        dict(name="config", cmd="c12", args=lambda t, s: ["-stage", "config"]),
        dict(name="scan", cmd="c12", args=lambda t, s: ["-stage", "scan"]),
        dict(name="time", cmd="c12", args=lambda t, s: ["-stage", "time"]),
        dict(name="shlex", cmd="c12", args=lambda t, s: ["-stage", "shlex"]),
        dict(name="options", cmd="c12", args=lambda t, s: ["-stage", "options"]),
    )
    assumptions = (
        "descriptor digests/sizes, diff-ids, JSON and tar encodings are computed by go-containerregistry / cosign / archive/tar and are outside the model: they are re-read and recomputed by the harness (exploration, not proof)",
        "github.com/google/shlex Split (version pinned in go.mod) and Go 1.23's time.Time.Format(RFC3339)/MarshalJSON are MODELLED (Model/OciShlex.v, Model/OciTime.v) from their sources by hand; the models are compared with the real functions on every run (stages shlex, time, config: mismatch:shlex, mismatch:rfc3339, mismatch:rfc3339-json); the theorems about them quantify over all strings / all second counts",
        "archive/tar's Reader.Next position bookkeeping per record kind (member with data, header-only member, PAX x / GNU L,K extension record, PAX global header; sparse members out of scope) is modelled by hand (Model/Oci.v rd_next) and compared with the real reader placed unbuffered on an *os.File (stage scan); c12_append_offset_scan assumes the stream ends with a member whose data is what hdr.Size says (EndsOk) - MultiWrite writes regular files only",
        "Go map iteration order is an explicit permutation parameter quantified in c12_env / c12_index / c12_config_mapping / c12_image_mapping",
        "int64 arithmetic in BuildIndex is modelled on Z; c12_append_offset bounds the result by pos+size+512, so no wrap-around below 2^63-512; Unix seconds are unbounded Z in the time model (compared with Go up to |sec| = 2^62)",
        "the bytes between the end of manifest.json and the append offset are the zero padding go-containerregistry's tar writer already wrote (BuildIndex seeks back over the end-of-archive marker); the harness observes the first non-zero byte after manifest.json, also over a stale longer output file",
        "c12_image_mapping covers creation times of the form time.Unix(sec, 0).UTC() (SOURCE_DATE_EPOCH, the default, package build times); a --build-date with a zone offset or a fraction is covered by the model and the correspondence only",
    )
    level_text = ("Theorems about an executable model of the OCI emitters' own logic, whose constants, tables, append-offset arithmetic and scan-loop statements are regenerated from "
                  "index.go / image.go / types.go / image_configuration.go on every run: c12_append_offset (for all positions and sizes the offset BuildIndex seeks to is the least multiple of 512 "
                  "at or after the end of the last member), c12_reader_position + c12_append_offset_scan (for every tar stream of header records archive/tar accepts, the reader's file offset after "
                  "each Next() is the start of that member's body, hence the scan loop + arithmetic yield the first end-of-archive block), c12_env, c12_config_mapping (+ _partial/_refuted, full "
                  "since fix b1a922a), c12_platform_table (whole generated switch tables), c12_index (every map iteration order), c12_bundle_complete (full since fix 5bbacb4). New in this "
                  "round, with the former oracles modelled: c12_civil_date (for every day count the printed year/month/day is the valid Gregorian date with that day number), "
                  "c12_rfc3339_roundtrip / _monotone (for every second count in years 0..9999 the created text denotes exactly that instant, has the 20-character shape, and text order = "
                  "time order), c12_rfc3339_out_of_range (outside: MarshalJSON refuses exactly those, witnesses for shape/order), c12_shlex_plain / _quote_roundtrip / _errors (token list = "
                  "fields for unquoted command lines; any word list survives single-quoting; unterminated quotes fail), c12_image_mapping (Validate's service-bundle rewrite, entrypoint/cmd "
                  "are the model's token lists, created field + label + one history entry per layer denote the creation time, base history kept), c12_image_unserialisable_time, c12_source_date_epoch_created (SOURCE_DATE_EPOCH parsed as build.New does is the instant every created text denotes), c12_annotations_precedence (command line over configuration file for every key, idempotent under re-application; the direction of the copy in "
                  "build.WithAnnotations is read from options.go on every run). "
                  "The model is tied to the code by differential comparison on real BuildIndex / BuildImageFromLayers / GenerateIndex / archive/tar / shlex / time runs.")
    level_note = ("trusted: Coq kernel, goextract, Go harness/printer; modelled not verified: Go text of BuildIndex/BuildImageFromLayers/generateIndexWithMediaType/Validate, shlex's tokenizer, "
                  "time's RFC3339 printers, archive/tar's Reader.next bookkeeping (all compared with the real code on every run); "
                  "EXPLORATION only (not proof): byte-level well-formedness - tar readability, sha256/size of every descriptor, config diff-ids vs layers, produced by "
                  "go-containerregistry/cosign/archive/tar - re-read and recomputed by the harness over a sweep of manifest.json lengths mod 512")
    design_ref = "DESIGN.md 7 C12"
    modelled_not_verified = ("BuildIndex's offset arithmetic and scan-loop body are translated statement by statement by goextract (Base/C12Lib.stmt / scan_op), the rest of BuildIndex, "
                             "BuildImageFromLayers, Validate, generateIndexWithMediaType, ParseArchitecture/ToAPK/ToOCIPlatform control flow is modelled by hand (Model/Oci.v, Model/OciImage.v) over "
                             "generated tables and literals; shlex.Split (Model/OciShlex.v), time's RFC3339 printers (Model/OciTime.v) and archive/tar's Next() position bookkeeping (rd_next) are "
                             "hand models of library code; go-containerregistry, cosign, encoding/json and the byte level of archive/tar are exercised by the harness only")

PROP = P()
