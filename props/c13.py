import vlib

class P(vlib.Prop):
    id = "C13"
    watch = ("pkg/build/accounts.go", "pkg/build/paths.go", "pkg/build/build_implementation.go", "pkg/passwd/*.go", "pkg/tarfs/fs.go", "pkg/apk/fs/memfs.go", "pkg/build/oci/image.go", "pkg/build/types/image_configuration.go")
    rule = ("accounts stage: hand-picked corners (defaults, colliding names, uid 2^32-1, /dev/null homes, pre-existing homes of each kind, "
            "symlinked/dangling/looping homes, malformed and odd pre-existing passwd/group text, signed/oversized ids, member-less groups), then random account lists over "
            "random trees, on apkfs.NewMemFS() and tarfs.New(), through the real mutateAccounts; the repository's own ReadUserFile/ReadGroupFile are compared with the model's parsers on the initial and final files; "
            "paths stage: hand-picked corners then random sequences of the five mutation types (overlapping paths, recursive flags, symlinked parents, "
            "modes with and without special bits) through the real mutatePaths, observed after every prefix of the sequence; both stages serialise the "
            "result with the repository's writeTar and read it back with archive/tar; "
            "e2e stage: generated image configurations (users with default/explicit/existing/symlinked homes, groups, run-as by configured / package-provided / colliding / unknown name and numeric, "
            "path mutations of every type below users' homes, on the homes, on package-shipped directories and files, through symlinks, recursive, on etc/passwd, etc/group, etc/apko.json) over synthetic signed packages "
            "(with and without etc/passwd, etc/group) go through the REAL pipeline: build.New + BuildLayer + oci.BuildImageFromLayer on apkfs.NewMemFS() and on tarfs.New(), and the apko CLI built from the tree; "
            "the emitted layer is untarred by the harness's own reader and the validators judge passwd/group, config.User, every home ('already existed' = before this build's declarations and earlier accounts) "
            "and every declared mutation not touched by a later one; the whole layer is compared with the pipeline model (ImageConfiguration.Validate in front of it, as in build.New). "
            "Session 6 corpora: configured groups colliding with package-provided entries in every way (same name / same gid / both / identical / twice), account fields holding ':', newlines and blanks (Validate's verdict is observed and compared with its model), "
            "`permissions` entries placed before later mutations of the same nodes, recursive walks over link entries that point out of the directory, paths with trailing slashes, empty-file through link chains. "
            "A case is non-trivial when something is configured; distinct = distinct case terms.")
    stages = (
        dict(name="accounts", cmd="c13", args=lambda t, s: ["-stage", "accounts"]),
        dict(name="paths", cmd="c13", args=lambda t, s: ["-stage", "paths"]),
        dict(name="e2e", cmd="c13", args=lambda t, s: ["-stage", "e2e"]),
    )
    assumptions = (
        "path strings are modelled by their non-empty '/'-separated components plus 'absolute' and 'trailing slash' flags; creating a directory entry literally named '.', '..' or '/' is outside the model (the generators never do it)",
        "strings.TrimSpace is modelled for ASCII white space only; bufio's 64 KiB line limit as 'a line of 65535 bytes or more is an error'",
        "the group and passwd goroutines of mutateAccounts are modelled sequentially (group first); they touch disjoint files unless a home lies at or under etc/group",
        "generated trees contain no hard-linked directories (a cycle makes fs.WalkDir recurse forever); package-backed (tar entry) files occur in the e2e stage only",
        "e2e stage: permissions up to 0o777, no package-shipped hard links, mutation paths outside /dev and /tmp, no services and no busybox package (the later pipeline steps are the identity in the model)",
        "permissions values are below 2^19 so that they cannot collide with Go's FileMode type bits",
    )
    level_text = ("Theorems in Properties/C13.v hold for every account list, run-as name, pre-existing passwd/group text, tree and mutation sequence (unbounded), about an "
                  "executable model of mutateAccounts / mutatePaths / the step order of buildImage over a heap-of-nodes model of the two in-memory filesystems (tar-entry-backed files of tarfs included): "
                  "passwd/group = old ++ configured and the text-level round trip of the codec; run-as = first match; homes in full (the created node is what Stat finds, 0700 and owner, parents 0755, nothing else changes, "
                  "also at the end of the whole loop); parsed entries are well-formed up to line length, so the written file re-reads as old ++ configured for every clean configuration; colliding groups are appended, never merged or dropped; "
                  "per mutation: mode/owner of what the path resolves to, kind of what sits at the path, empty-file at path level (entry = resolved node, empty, regular when created, package-backed files included), the EXACT set of nodes a recursive "
                  "directory mutation touches (below the directory through non-link entries plus the targets of link entries; declared values inside, untouched outside), a frame theorem (kinds and link targets never change, "
                  "changed modes/owners are declared ones, a simple mutation changes at most the node its path resolves to) and, for arbitrary lists, application in order (a node keeps what a mutation gave it unless a later one touches it; "
                  "the later one wins); well-formedness is preserved by every operation, mutation, list, by mutateAccounts and etc/apko.json, so only the initial tree is constrained; fuel of walk/dump proved sufficient on well-formed heaps; "
                  "accepted configurations are clean (Validate's character sets read from the source), empty-file paths with a trailing slash are covered since the path is cleaned; the two pre-fix shapes are kept as labelled hypotheticals with armed tags and replays; constants, formats, the mutator table, Validate's character tests, mutateEmptyFile's target expression and the "
                  "order of buildImage's steps are regenerated from the source on every run; the model is tied to the code by differential comparison of error/no error, passwd/group text and parsed entries, run-as, "
                  "every path's kind/mode/uid/gid/target and the tar layer — for the two functions alone and for whole builds through build.New/BuildLayer and the CLI — and the validators are run on what the real code produced.")
    level_note = ("trusted: Coq kernel, goextract, Go harness/printer and its tar reader/resolver, harness/synthrepo; modelled not verified: the Go text of accounts.go/paths.go/passwd.go/group.go/build_implementation.go and of the two in-memory "
                  "filesystems, archive/tar, fs.WalkDir, the apk installer (its output is taken as the pipeline model's start tree); correspondence is differential testing, not proof; "
                  "not proved: empty-file when the path is the name of a symbolic link (openFile and getNode follow a final link by different rules), base-image builds are covered by the guard of the accounts step read from buildImage and c13_base_image_accounts_skipped only (no generated base-image scenario)")
    design_ref = "DESIGN.md 7 C13"
    modelled_not_verified = ("mutateAccounts, userToUserEntry, mutatePaths and the five mutators, UserEntry/GroupEntry Parse/Write, the memfs/tarfs operations they call and the order of buildImage's steps are "
                             "modelled by hand (Model/C13Fs.v, Model/Accounts.v, Model/PathMut.v, Model/C13Build.v); default shell/home/modes, the homeless marker, the two Fprintf formats, field "
                             "counts, separators, maxLinks, Create's mode, the list of buildImage's calls in source order, etc/apko.json's path and mode, the empty-member guard of GroupEntry.Parse and tarfs' truncation behaviour "
                             "are regenerated from the source, as are the strings.ContainsAny tests of Validate and the target expression of mutateEmptyFile; Validate's accounts part is modelled (Proofs/AccountsParsed.v: validate_accounts) and compared on every accounts case; "
                             "WriteSupervisionTree, installBusyboxLinks, installCharDevices and BuildImageFromLayers (config.User := RunAs) are exercised by the e2e stage only")

PROP = P()
