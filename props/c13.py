import vlib

class P(vlib.Prop):
    id = "C13"
    watch = ("pkg/build/accounts.go", "pkg/build/paths.go", "pkg/build/build_implementation.go", "pkg/passwd/*.go", "pkg/tarfs/fs.go", "pkg/apk/fs/memfs.go", "pkg/build/oci/image.go")
    rule = ("accounts stage: hand-picked corners (defaults, colliding names, uid 2^32-1, /dev/null homes, pre-existing homes of each kind, "
            "symlinked/dangling/looping homes, malformed and odd pre-existing passwd/group text, signed/oversized ids), then random account lists over "
            "random trees, on apkfs.NewMemFS() and tarfs.New(), through the real mutateAccounts; "
            "paths stage: hand-picked corners then random sequences of the five mutation types (overlapping paths, recursive flags, symlinked parents, "
            "modes with and without special bits) through the real mutatePaths, observed after every prefix of the sequence; both stages serialise the "
            "result with the repository's writeTar and read it back with archive/tar. A case is non-trivial when something is configured; distinct = distinct case terms.")
    stages = (
        dict(name="accounts", cmd="c13", args=lambda t, s: ["-stage", "accounts"]),
        dict(name="paths", cmd="c13", args=lambda t, s: ["-stage", "paths"]),
        dict(name="e2e", cmd="c13", args=lambda t, s: ["-stage", "e2e"]),
    )
    assumptions = (
        "path strings are modelled by their non-empty '/'-separated components plus 'absolute' and 'trailing slash' flags; creating a directory entry literally named '.', '..' or '/' is outside the model (the generators never do it)",
        "strings.TrimSpace is modelled for ASCII white space only; bufio's 64 KiB line limit as 'a line of 65535 bytes or more is an error'",
        "the group and passwd goroutines of mutateAccounts are modelled sequentially (group first); they touch disjoint files unless a home lies at or under etc/group",
        "generated trees contain no hard-linked directories (a cycle makes fs.WalkDir recurse forever) and no package-backed (tar entry) files",
        "permissions values are below 2^19 so that they cannot collide with Go's FileMode type bits",
    )
    level_text = ("Theorems in Properties/C13.v hold for every account list, run-as name, pre-existing passwd/group text, tree and mutation sequence (unbounded), about an "
                  "executable model of mutateAccounts / mutatePaths over a heap-of-nodes model of the two in-memory filesystems; constants and format strings are "
                  "regenerated from the source on every run; the model is tied to the code by differential comparison of error/no error, passwd/group text, run-as, "
                  "every path's kind/mode/uid/gid/target and the tar layer, and the validators are run on what the real code produced.")
    level_note = ("trusted: Coq kernel, goextract, Go harness/printer; modelled not verified: the Go text of accounts.go/paths.go/passwd.go/group.go and of the two in-memory "
                  "filesystems, archive/tar, fs.WalkDir; correspondence is differential testing, not proof")
    design_ref = "DESIGN.md 7 C13"
    modelled_not_verified = ("mutateAccounts, userToUserEntry, mutatePaths and the five mutators, UserEntry/GroupEntry Parse/Write and the memfs/tarfs operations they call are "
                             "modelled by hand (Model/C13Fs.v, Model/Accounts.v, Model/PathMut.v); default shell/home/modes, the homeless marker, the two Fprintf formats, field "
                             "counts, separators, maxLinks and Create's mode are regenerated from the source; Validate and BuildImageFromLayers (config.User := RunAs) are exercised by the harness only")

PROP = P()
