import vlib

class P(vlib.Prop):
    id = "C14"
    rule = ("stage multiarch: the real multi-architecture entry point (build.NewMultiArch, then every context's APK.ResolveWorld with its ByArch siblings, then MultiArch.BuildPackageLists) on families of "
            "per-architecture repositories that drifted apart: 2-5 of apko's nine architectures (half of the families contain BOTH arm/v6 and arm/v7, which always drift; an architecture may be listed twice), "
            "1-3 drifts per architecture out of: version missing, newer build only here, package only here, rebuilt under the next -rN, a twin version that compares equal (1.0 next to 1.0-r0, before or after), "
            "a provider of a virtual name only here (with or without a version, other priority), a package that stops providing the virtual name here, another index order, an EMPTY index, an install_if package only here; "
            "optionally a second, pinned repository; reached as local directories, over HTTP with an ETag and over HTTP without one. Corpus first: C14-F2 replays (fixed), both ARM variants lagging / ahead in turn, "
            "three and five architectures with one lagging, an architecture listed twice, an empty index, virtual providers on one side, versions equal up to -rN, the c14_same_world_same_versions_refuted witness, "
            "C14-F1 through the wiring, pinned repositories. Observed: every context's ByArch map (key -> architecture of the APK stored there), the world file, every architecture's install list, the joined answer. "
            "In Coq (check_wiring): the ByArch maps must be the model's by_arch_of (key function read from the source) with no sibling dropped; every architecture's ordered list must EQUAL Model/MultiArch.resolve_arch "
            "(wiring + Model/Resolver.v); BuildPackageLists must equal the model's; the verified validator foreign_check runs on the IMPLEMENTATION's lists. "
            "stage dqcache: histories of 2-4 GetPackagesWithDependencies(allArchs) calls in one process over a pool of index objects (library API): the same grouping repeated, the pool regrouped into other architectures with "
            "the same concatenation (the scenario of the former finding C08-F2, fixed by 3541d7b: both orders, also with an architecture that has no indexes - regression replays), a republished index (new object, same name and source), three architectures resolved in turn; observed per call: "
            "the answer, the set the cache holds under the call's key, the uncached disqualifyDifference with its messages (hook). In Coq (check_history): all three must equal the model (dq_cache_get, dq_objs, dq_reasons); "
            "foreign_check / single-architecture-unaffected on the implementation's answers, tagged dq-cache-key-ignores-grouping exactly when an earlier call used the key with another grouping (no longer a listed finding: a VIOLATION). "
            "stage conc: concurrent per-architecture resolutions, the schedule BuildPackageLists / BuildLayers produce, through the library API: one GetPackagesWithDependencies(allArchs) per architecture of a skewed family "
            "(2-4 architectures, named or unnamed indexes), every round from a cold cache with fresh index objects wrapped so that Packages() stalls while armed; each architecture in turn is started first and held inside "
            "disqualifyDifference while the other architectures' calls arrive, then released (corpus: the foo-2.0-r0-on-x86_64-only family of seeded C14-9, both ARM variants lagging). In Coq (check_conc): every architecture's list, "
            "every round, must EQUAL the model's list from an empty cache and pass foreign_check. In the multiarch stage foreign_check now also runs on the lists BuildPackageLists returned (the concurrent run). "
            "stage c14: corpus first (C14-F1 replay, also through a chain of install_if packages, newer build on one architecture only, a package missing three dependency levels deep over three architectures, "
            "a provider available on one side only, single architecture with and without install_if additions), then families of per-architecture universes: a generated base universe (as in C02's "
            "general stream; a quarter with install_if packages; a third with an explicit dependency chain c0 -> ... -> cN, N = 2..4, whose newest LEAF is missing on "
            "the second architecture) cloned for 2-3 architectures and drifted apart by 1-3 mutations each (version missing, newer build only here, rebuilt under "
            "another version, different provides, package that exists only here — as a dependency or as an install_if package); three worlds per family, each resolved "
            "on EVERY architecture by the real GetPackagesWithDependencies(allArchs = all architectures); plus single-architecture universes resolved with "
            "allArchs = {arch} and with allArchs = nil. In Coq: the model gets its own disqualify_difference as initial set and must EQUAL each ordered install "
            "list (install_if additions included: the loop is deterministic since fix c03e0c0; universes with install_if are resolved four more times and must repeat); "
            "foreign_check (verified) runs on the IMPLEMENTATION's lists; for single-architecture cases both observed answers must equal the plain model. Non-trivial = "
            "some run installs two or more packages; distinct = distinct case terms.")
    stages = (
        dict(name="c14", cmd="c02", args=lambda t, s: ["-stage", "c14"]),
        dict(name="conc", cmd="c14", args=lambda t, s: ["-stage", "conc"]),
        dict(name="multiarch", cmd="c14", args=lambda t, s: ["-stage", "multiarch"]),
        dict(name="dqcache", cmd="c14", args=lambda t, s: ["-stage", "dqcache"]),
    )
    coq_targets = ["Properties/C14.vo", "Corr/C14.vo"]
    watch = ("pkg/build/multi.go", "pkg/apk/apk/repo.go", "pkg/apk/apk/implementation.go", "pkg/apk/apk/shameful_global_caches.go", "pkg/build/types/types.go")
    assumptions = (
        "wiring theorems: the ByArch keys of the requested architectures are distinct (proved for apko's nine architectures, c14_byarch_keys_distinct; an arbitrary Architecture string is its own key as long as the key expression is String()) "
        "and every architecture's index objects are its own (repos_separate: no sibling's GetRepositoryIndexes returns an object the resolver was built from, objects of one list pairwise different)",
        "which index objects GetRepositoryIndexes returns is an input of the model (own / load); the index cache that decides it belongs to C08/C19; the world handed to the resolver is what GetWorld returns (sorted, without duplicates)",
        "c14_dq_symmetric_complete / c14_filtered_members_multi / c14_same_world_same_versions_* speak about a resolution that starts from an EMPTY disqualification cache; c14_cache_own_grouping shows that after ANY earlier history "
        "a call is handed the members of its own grouping (one cache entry per grouping since fix 3541d7b; with the lookup by the key alone this fails: c14_cache_keyed_by_concatenation_refuted, the former finding C08-F2). Its hypotheses: the maps are Go maps "
        "(distinct architectures) and index objects with one identity are one object",
        "inside one BuildPackageLists the per-architecture calls run concurrently and share the process-wide cache; whatever it holds every call gets the difference of its own grouping, so the model computes every answer from an empty cache",
        "the cache key of indexes with EQUAL names follows map iteration (and, from 12 indexes on, an unstable sort); the dqcache stage exercises it with all-unnamed pools (the entry lookup of the hook may then miss; a found entry must be the call's own difference)",
        "messages: %q of a printable ASCII string without quote or backslash is the string between double quotes (the generators use only such names); which lacking sibling a message names follows map iteration: the observed message must be one of the model's",
        "everything C02 assumes about the resolver model (map iteration, errors as a boolean)",
    )
    level_text = ("c14_dq_complete / c14_dq_symmetric_complete (for every number and order of architectures the set a resolution starts from is exactly: some OTHER requested architecture lacks this name+version — through NewMultiArch's ByArch map, "
                  "ResolveWorld's sibling loop and disqualifyDifference on package objects), c14_byarch_keys_distinct + c14_no_sibling_dropped (finite enumeration over types.AllArchs read from the source), c14_filtered_members(_multi) "
                  "(a member that is not an install_if package is available at that version on every requested architecture), c14_no_foreign_version_partial, c14_single_arch_unaffected, c14_cache_own_grouping (after any history a call is handed the difference of its own grouping), "
                  "c14_cache_listing_order_irrelevant (whatever order the request map is listed in - it decides the trie path of unnamed indexes - the call gets its own difference), c14_concurrent_calls_serialised (Get is one critical section: every order of concurrent whole calls hands each its own difference), c14_dq_reason_names_a_lacking_sibling, c14_same_world_same_versions_partial hold for all inputs (unbounded); REFUTED by kernel-checked witnesses replayed on the real code: c14_no_foreign_version / "
                  "c14_filtered_members_multi without the install_if proviso (finding C14-F1), c14_cache_keyed_by_concatenation (non-vacuity: the lookup before fix 3541d7b, the former finding C08-F2), c14_same_world_same_versions (two architectures offering the same packages install "
                  "lib-1.0-r0 and lib-1.0: equal-comparing versions, first candidate wins — availability, which is what the property states, is not violated); c14_source_shape pins the source shapes the wiring model transcribes; "
                  "the model is tied to the code by goextract (key expression, AllArchs, loop shapes, message format) and by differential comparison through the real NewMultiArch / ResolveWorld / BuildPackageLists and through call histories.")
    level_note = ("trusted: Coq kernel, goextract, Go harness/printer; modelled not verified: the Go text of NewMultiArch, ResolveWorld, disqualifyDifference, disqualifyCache.Get and of the resolver (shape-checked by goextract, compared by "
                  "differential testing, not proved); the index cache behind GetRepositoryIndexes is an input; correspondence is differential testing, not proof")
    design_ref = "DESIGN.md 7 C14, Appendix A.1"
    modelled_not_verified = ("NewMultiArch, APK.ResolveWorld, disqualifyDifference, disqualifyCache.Get and GetPackagesWithDependencies' use of it are modelled by hand in Model/MultiArch.v over the resolver of Model/Resolver.v "
                             "(functions listed under C02); BuildLayers / the index cache / world-file handling are not modelled")

PROP = P()
