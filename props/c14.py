import vlib

class P(vlib.Prop):
    id = "C14"
    rule = ("stage multiarch: the real multi-architecture entry point (build.NewMultiArch + BuildPackageLists, i.e. APK.ResolveWorld with its ByArch siblings) on families of "
            "per-architecture repositories that drifted apart (2-4 of amd64, arm64, arm/v7, arm/v6, riscv64, s390x; newest version missing somewhere, newer build only here, package only here), "
            "reached as local directories, over HTTP with an ETag and over HTTP without one; every architecture's install list is judged by the verified validator foreign_check. "
            "stage c14: corpus first (C14-F1 replay, also through a chain of install_if packages, newer build on one architecture only, a package missing three dependency levels deep over three architectures, "
            "a provider available on one side only, single architecture with and without install_if additions), then families of per-architecture universes: a generated base universe (as in C02's "
            "general stream; a quarter with install_if packages; a third with an explicit dependency chain c0 -> ... -> cN, N = 2..4, whose newest LEAF is missing on "
            "the second architecture) cloned for 2-3 architectures and drifted apart by 1-3 mutations each (version missing, newer build only here, rebuilt under "
            "another version, different provides, package that exists only here — as a dependency or as an install_if package); three worlds per family, each resolved "
            "on EVERY architecture by the real GetPackagesWithDependencies(allArchs = all architectures); plus single-architecture universes resolved with "
            "allArchs = {arch} and with allArchs = nil. In Coq: the model gets its own disqualify_difference as initial set and must EQUAL each ordered install "
            "list (install_if additions included: the loop is deterministic since fix c03e0c0; universes with install_if are resolved four more times and must repeat); "
            "foreign_check (verified) runs on the IMPLEMENTATION's lists; for single-architecture cases both observed answers must equal the plain model. Non-trivial = "
            "some run installs two or more packages; distinct = distinct case terms.")
    stages = (
        dict(name="c14", cmd="c02", args=lambda t, s: ["-stage", "c14"]),
        dict(name="multiarch", cmd="c14", args=lambda t, s: ["-stage", "multiarch"]),
    )
    coq_targets = ["Properties/C14.vo", "Corr/C14.vo"]
    assumptions = (
        "byArch is a list of (architecture, universe) with distinct architecture names (Go: map[string][]NamedIndex); the resolver under test was built from the very index objects listed under its architecture",
        "the disqualification CACHE is not modelled: theorems speak about a fresh disqualifyDifference; the cache key ignores the grouping by architecture (finding C08-F2, reachable through the library API only) — see C08",
        "MultiArch.BuildPackageLists / ResolveWorld wiring (ByArch) is not exercised here; the public resolver API is called with the allArchs map directly",
        "everything C02 assumes about the resolver model (map iteration, errors as a boolean)",
    )
    level_text = ("c14_dq_complete (disqualify_difference marks exactly the packages whose name+version another architecture lacks), c14_filtered_members (a member inside the "
                  "initial set can only be an install_if package), c14_no_foreign_version_partial (no install_if in the universe => no member is missing elsewhere) and "
                  "c14_single_arch_unaffected hold for all per-architecture universes and worlds (unbounded); c14_no_foreign_version is REFUTED by a kernel-checked "
                  "witness (finding C14-F1, replayed on the real code); the model is tied to the code by differential comparison over generated families of diverging universes.")
    level_note = ("trusted: Coq kernel, goextract, Go harness/printer; modelled not verified: the Go text of disqualifyDifference and of the resolver; the caches and the "
                  "MultiArch wiring are outside this check; correspondence is differential testing, not proof")
    design_ref = "DESIGN.md 7 C14, Appendix A.1"
    modelled_not_verified = ("disqualifyDifference and the resolver functions listed under C02 are modelled by hand in Model/Resolver.v; globalDisqualifyCache and pkg/build/multi.go are not modelled")

PROP = P()
