import vlib

class P(vlib.Prop):
    id = "C15"
    watch = ("pkg/apk/apk/version.go", "pkg/apk/apk/apkindex.go", "pkg/apk/apk/installed.go", "pkg/apk/apk/package.go", "pkg/apk/apk/index.go", "pkg/apk/apk/install.go",
             "pkg/apk/expandapk/*.go", "pkg/passwd/*.go", "pkg/build/sbom.go", "pkg/build/lock.go", "pkg/build/layers.go", "pkg/lock/lock.go",
             "pkg/build/types/*.go", "pkg/baseimg/*.go", "pkg/tarfs/fs.go", "pkg/apk/fs/rwosfs.go", "pkg/paths/paths.go", "pkg/apk/apk/util.go", "pkg/apk/apk/cache.go",
             "pkg/apk/apk/resolveapk.go", "pkg/apk/internal/tarfs/tarfs.go", "pkg/apk/apk/repository.go", "pkg/apk/auth/auth.go", "pkg/build/busybox.go", "internal/cli/lock.go", "internal/cli/publish.go")
    rule = ("four stages. readers: (a) Coq cases: hand-picked corners first (every fixed defect and finding replay: 'P\\n', one-byte lines, empty tar entry name, empty path, "
            "negative layer budget), then the four line-oriented readers on mutated well-formed documents (truncation, byte/bit edits, splices, line edits); the "
            "implementation's outcome class (returned / error / panic / timeout, under recover and a 3 s deadline) is compared with the model's class and judged by the validator. "
            "(b) exploration in Go only, reported as IMPL-VIOLATION lines and counted in STAT: 14 readers on the empty input, truncations at every offset (sampled above 600 bytes), "
            "random 1-3 step mutations of well-formed documents, every sequence of 0..4 gzip members, oversized lines/members; crashes that recover cannot catch are probed in child processes. "
            "sites: the readers added to the model in session 3 run for real and compared with the model in Coq, result VALUES included where the function returns any: readReleaseData "
            "(ID, NAME, VERSION_ID), the '@tag url' splitter through GetRepositoryIndexes on a local repository (name and source of the index that comes back; Unicode and invalid-UTF-8 white space), "
            "unify's splitter through unify itself (the one prefix that locks, and the pin it re-attaches), checksumFromHeader (bytes), ExpandApk and Split on every sequence of up to four members "
            "of four kinds (signature / other / empty / corrupt) with and without trailing garbage (Signed flag, number of parts); Go only: each line reader on a record whose long line is exactly "
            "the scanner's token limit (must be an error) and one byte less (must be read), hostile signature entry names, unify without architectures. "
            "decoders (Go only, exploration): 2215 structured hostile inputs (tar header fields, PAX records, gzip framing, YAML aliases/nesting/includes/numbers, JSON nesting/numbers/types, OCI layout "
            "descriptors) through IndexFromArchive, Split, ExpandApk, ParsePackage, the install loop + installed database, lock.FromFile, ImageConfiguration.Load+Validate, baseimg.New, in child "
            "processes under a 4 GiB address-space limit and a per-call deadline; a death of the child (stack overflow, out of memory) is attributed to the case that was running. "
            "Session 4: readers also gets every sequence of up to 3 lines (4 in thorough) over the file letters of the installed database (F/R/a/M/Z, blank, malformed perms, P) and sampled longer ones; "
            "sites also gets os-release value shapes (every value of up to 3 bytes over quote/letter/space/=/'), ExpandApk / Split / ResolveApk on member sequences over SIX kinds (two more: a valid gzip stream holding only a tar "
            "end marker, a valid gzip stream that is no tar), controlValue through the whole InstallPackages pipeline (values of `triggers` read back from lib/apk/db/triggers), '!name' constraints through the resolver, "
            "groupByOriginAndSize's cut (groups x budgets), RepoAbbr, EnvAuth.AddAuth, etagFromResponse, each compared with its model in Coq; decoders also gets the family declared-size: tar members whose header (ustar octal, GNU "
            "base-256, PAX size record) declares 2^31..2^63-1 bytes with 0 or 3 bytes following, under every member name each tar reader reads (APKINDEX, DESCRIPTION, .SIGN.*, .PKGINFO, scripts, data entries), for IndexFromArchive, "
            "parseRepositoryIndex, Split, ExpandApk, ParsePackage, NewAPKFS, the install loop and InstallPackages on tarfs and memfs: a panic, a death of the child, a timeout or more than 256 MiB allocated during the call is a violation; "
            "includes: ImageConfiguration.Load on real directory trees (working directory, include paths, relative includes, one file under different spellings, undecodable files), class and merged contents.packages "
            "compared with the model load_config (paths.ResolvePath + the kernel's path walk + the list of resolved paths being loaded, fix 43ae291) at fuel 40 and at the proved bound |files|+2: 65 of the 148 quick trees are cyclic and must be refused with an error; a load that does not come back (stack growth or 20 s) carries the tag of the repaired finding C15-F6, which stays armed. "
            "Both child probes of the repaired finding C15-F4 (a './' entry through sortTarHeaders and through the install path) must exit normally; the install decoder reader no longer leaves './' entries out. "
            "Wave 3: archives whose members are hard / symbolic links (self-links, 2-/3-cycles, mixed cycles, chains of 63..130 hops, missing / directory / absolute / empty targets, repeated names) as control and as data section: sites kind tarfsOpen (ExpandApk, then the name opened through ControlFS / TarFS in a child process; class and the entry reached compared with tarfs_open_name), decoders family links/ through Split, ExpandApk + every member opened, ParsePackage, NewAPKFS, the install loop, InstallPackages on tarfs and memfs with read-back, under a 128 MiB stack limit. "
            "In-process stages give a call that misses its deadline a second, long wait before it counts as a hang (a machine shared with other checks). distinct = distinct case terms.")
    stages = (
        dict(name="readers", cmd="c15", args=lambda t, s: []),
        dict(name="sites", cmd="c15", args=lambda t, s: ["-stage", "sites"]),
        dict(name="decoders", cmd="c15", args=lambda t, s: ["-stage", "decoders"]),
        dict(name="includes", cmd="c15", args=lambda t, s: ["-stage", "includes"]),
    )
    assumptions = (
        "library decoders (gzip, tar, yaml, json, ini, base64, hex, regexp, strconv) are not modelled: their behaviour on malformed input is explored by the harness (stage decoders), not proved; "
        "bufio.Scanner's line splitting and token limit, strings.Fields / Cut / Trim / IndexAny / TrimSuffix / HasPrefix are modelled (Base/C16Lib, Model/Parsers.v) and the facts the callers rely on are lemmas about those models",
        "the regexp engine returns submatch vectors of 1 + NumSubexp entries; the group counts are computed from the regex literals goextract reads from the source",
        "M: lines that do not directly follow their F: line are outside the model (stale pointer after slice growth); such mutated texts are run in Go only",
        "ExpandApk / Split / ResolveApk: a gzip member is abstracted to one of six kinds (signature tar, other tar, gzip of nothing, corrupt gzip, end marker only, no tar); what the gzip and tar readers do inside a member is the library's business (compared on every sequence of up to 4 members, 1555 x 2 in thorough)",
        "sortTarHeaders: Formats.sort_headers (shared with C16) is the function after fix f716198 (entries that clean to '.' filtered first); sort_headers_raw is the former function and only appears in statements labelled hypothetical",
        "ImageConfiguration.Load: a file is its marker and its include field (or undecodable); the file tree has no symbolic links; os.Stat / os.ReadFile are the model's path walk (a name is looked up in an existing directory, '..' of the root is the root)",
        "the bound on the tar-entry loops is conditional on archive/tar's contract (an entry costs at least its 512-byte header block; an error is repeated): stated as the hypothesis `consumes` of the theorem and probed on 700 hostile streams per run, not proved of the library",
        "RemoveLabel, parseAnnotations, parseAlpineVersion, fetchOffline, installBusyboxLinks are modelled and tied to the source by pinned site lists / guards / regex group counts / loop shape, but not run against the model (not importable or behind network)",
        "index / slice expressions and length guards of the transcribed functions are read from the source with local names erased and pinned by c15_sites_pinned: an edit that adds or changes one breaks the theorem",
    )
    level_text = ("75 theorems, all closed. For ALL inputs the models, written with checked slicing / indexing, return a result or an error, never Panic and never out of fuel: the line-oriented readers "
                  "(ParsePackageIndex, ParseInstalled + parseInstalledPerms, UserFile.Load, GroupFile.Load, readReleaseData), ParseVersion / ResolvePackageNameVersionPin (group counts of the source's "
                  "regexes), cachedPackage, checksumFromHeader (three copies), the '@tag url' splitter of GetRepositoryIndexes (with a UTF-8 aware model of strings.Fields whose 'no empty field' contract is "
                  "a lemma), unify's constraint splitter (IndexAny result in range), ExpandApk's section indices for EVERY number of gzip members (table read from the source's switch, plus the member loop: "
                  "at most 3 members are collected, plus the tar scan of the control and data sections over six member kinds), Split/ParsePackageInfo/ResolveApk, the signature-name test and b[readBytes:] of "
                  "parseRepositoryIndex, ParseArchitectures, the install loops' name test, standardizePath, the layer budget and groupByOriginAndSize's cut, parseAlpineVersion, fetchOffline, "
                  "etagFromResponse, controlValue, installBusyboxLinks, EnvAuth.AddAuth, parseAnnotations, the '!name' constraints. Token limit: for each of the five line readers a line that does not fit the limit "
                  "the source sets makes the reader return an error (c15_long_line_is_error_*), never a shortened result. Bounded work: the scanner loops run at most |input|+1 turns, strings.Fields looks at every byte once, "
                  "RemoveLabel's loop needs at most |s| turns; sortTarHeaders (since fix f716198 it skips an entry whose cleaned name is '.') ends on EVERY header list and every map order within fuel S(S(len)) "
                  "(c15_consumes_sort_headers, c15_sort_headers_fix_terminates, conservative w.r.t. the former function); ImageConfiguration.Load on a file tree (paths.ResolvePath modelled: working directory first, then each "
                  "include path; relative includes; since fix 43ae291 the resolved paths being loaded are remembered) returns on EVERY tree within |files|+2 loads (c15_include_load_terminates_on_trees, c15_include_chain_fuel_bound), "
                  "answers every request that reaches a cycle of resolved paths with an error whatever the spellings (c15_include_cycle_is_error, five spelled trees) and changed nothing where the former loader returned. "
                  "tarfs FS.open (members of an indexed control / data section opened by name) ends on EVERY archive index within maxHops+2 calls, both link kinds raising the hop counter (increments, limit and test read from the source: c15_tarfs_open_terminates, c15_tarfs_hops_pinned). "
                  "The twelve loops over tar entries goextract finds by shape under pkg/ (every error of Next leaves the loop: pinned) end within n/512+1 turns for EVERY reader that hands over an entry only after its 512-byte header (c15_tar_loops_terminate, c15_tar_loop_turns_bounded; the hypothesis is archive/tar's contract, probed on the hostile corpus). "
                  "Hypothetical statements about the former shapes are kept and labelled so (c15_sort_headers_before_fix_hypothetical, c15_include_before_fix_*_hypothetical: the recursion that did not end, findings C15-F4 and C15-F6, both repaired). "
                  "Refuted, API-only shapes with no caller in apko: unify without architectures, groupByOriginAndSize with MinInt64, RepoAbbr on a URI without '/'.")
    level_note = ("partial: proof for the modelled readers only; gzip/tar/yaml/json/ini decoding inside Split, ExpandApk, IndexFromArchive, ParsePackage, lock.FromFile, the YAML loader and baseimg.New is "
                  "explored with malformed streams and 3332 structured hostile inputs (among them 1100 declared-size archives with allocation accounting) under recover + deadline + memory ceiling (not a proof). trusted: Coq kernel, goextract, harness; "
                  "modelled not verified: the Go text of the readers")
    design_ref = "DESIGN.md 7 C15"
    modelled_not_verified = ("readers' control flow modelled by hand in Model/Formats.v and Model/Parsers.v; line guards, case letters, regex literals, scanner limits and Err() checks, separators, "
                             "the ExpandApk switch table, stream limits, and the index / slice sites and length guards of every transcribed function (27 functions), the group counts of repoRE and basicSemverRegex, RemoveLabel's loop shape and the absence of a sized read in IndexFromArchive are regenerated from the source (Generated/FieldLetters.v, C15Sites.v)")

PROP = P()
