import vlib

class P(vlib.Prop):
    id = "C15"
    watch = ("pkg/apk/apk/version.go", "pkg/apk/apk/apkindex.go", "pkg/apk/apk/installed.go", "pkg/apk/apk/package.go", "pkg/apk/apk/index.go", "pkg/apk/apk/install.go",
             "pkg/apk/expandapk/*.go", "pkg/passwd/*.go", "pkg/build/sbom.go", "pkg/build/lock.go", "pkg/build/layers.go", "pkg/lock/lock.go",
             "pkg/build/types/*.go", "pkg/baseimg/*.go", "pkg/tarfs/fs.go", "pkg/apk/fs/rwosfs.go")
    rule = ("three stages. readers: (a) Coq cases: hand-picked corners first (every fixed defect and finding replay: 'P\\n', one-byte lines, empty tar entry name, empty path, "
            "negative layer budget), then the four line-oriented readers on mutated well-formed documents (truncation, byte/bit edits, splices, line edits); the "
            "implementation's outcome class (returned / error / panic / timeout, under recover and a 3 s deadline) is compared with the model's class and judged by the validator. "
            "(b) exploration in Go only, reported as IMPL-VIOLATION lines and counted in STAT: 14 readers on the empty input, truncations at every offset (sampled above 600 bytes), "
            "random 1-3 step mutations of well-formed documents, every sequence of 0..4 gzip members, oversized lines/members; crashes that recover cannot catch are probed in child processes. "
            "sites: the readers added to the model in session 3 run for real and compared with the model in Coq, result VALUES included where the function returns any: readReleaseData "
            "(ID, NAME, VERSION_ID), the '@tag url' splitter through GetRepositoryIndexes on a local repository (name and source of the index that comes back; Unicode and invalid-UTF-8 white space), "
            "unify's splitter through unify itself (the one prefix that locks, and the pin it re-attaches), checksumFromHeader (bytes), ExpandApk and Split on every sequence of up to four members "
            "of four kinds (signature / other / empty / corrupt) with and without trailing garbage (Signed flag, number of parts); Go only: each line reader on a record whose long line is exactly "
            "the scanner's token limit (must be an error) and one byte less (must be read), hostile signature entry names, unify without architectures. "
            "decoders (Go only, exploration): 2215 structured hostile inputs (tar header fields, PAX records, gzip framing, YAML aliases/nesting/includes/numbers, JSON nesting/numbers/types, OCI layout "
            "descriptors) through IndexFromArchive, Split, ExpandApk, ParsePackage, the install loop + installed database, lock.FromFile, ImageConfiguration.Load+Validate, baseimg.New, in child "
            "processes under a 4 GiB address-space limit and a per-call deadline; a death of the child (stack overflow, out of memory) is attributed to the case that was running. distinct = distinct case terms.")
    stages = (
        dict(name="readers", cmd="c15", args=lambda t, s: []),
        dict(name="sites", cmd="c15", args=lambda t, s: ["-stage", "sites"]),
        dict(name="decoders", cmd="c15", args=lambda t, s: ["-stage", "decoders"]),
        dict(name="includes", cmd="c15", args=lambda t, s: ["-stage", "includes"]),
    )
    assumptions = (
        "library decoders (gzip, tar, yaml, json, ini, base64, hex, regexp, strconv) are not modelled: their behaviour on malformed input is explored by the harness (stage decoders), not proved; "
        "bufio.Scanner's line splitting and token limit, strings.Fields / Cut / Trim / IndexAny / TrimSuffix / HasPrefix are modelled (Base/C16Lib, Model/Parsers.v) and the facts the callers rely on are lemmas about those models",
        "the regexp engine returns submatch vectors of 1 + NumSubexp entries; the group counts are computed from the regex literals goextract reads from the source",
        "M: lines that do not directly follow their F: line are outside the model (stale pointer after slice growth); such mutated texts are run in Go only",
        "ExpandApk / Split: a gzip member is abstracted to one of four kinds; what the gzip and tar readers do inside a member is the library's business (compared on 682 member sequences per run)",
        "index / slice expressions and length guards of the transcribed functions are read from the source with local names erased and pinned by c15_sites_pinned: an edit that adds or changes one breaks the theorem",
    )
    level_text = ("43 theorems, all closed. For ALL inputs the models, written with checked slicing / indexing, return a result or an error, never Panic and never out of fuel: the line-oriented readers "
                  "(ParsePackageIndex, ParseInstalled + parseInstalledPerms, UserFile.Load, GroupFile.Load, readReleaseData), ParseVersion / ResolvePackageNameVersionPin (group counts of the source's "
                  "regexes), cachedPackage, checksumFromHeader (three copies), the '@tag url' splitter of GetRepositoryIndexes (with a UTF-8 aware model of strings.Fields whose 'no empty field' contract is "
                  "a lemma), unify's constraint splitter (IndexAny result in range), ExpandApk's section indices for EVERY number of gzip members (table read from the source's switch, plus the member loop: "
                  "at most 3 members are collected), Split/ParsePackageInfo, the signature-name test and b[readBytes:] of parseRepositoryIndex, ParseArchitectures, the install loops' name test, "
                  "standardizePath, the layer budget. Token limit: for each of the five line readers a line that does not fit the limit the source sets makes the reader return an error "
                  "(c15_long_line_is_error_*), never a shortened result. No loop without consuming input: every reader model is a structural recursion over the scanned lines / members; the one fuel "
                  "(sortTarHeaders) is proved sufficient on EVERY header list without an entry whose cleaned name is '.', the excluded shape being finding C15-F4 (refuted, witness replayed). "
                  "Refuted with witnesses replayed on the real code: the self-child directory (C15-F4), the include cycle of ImageConfiguration.Load (C15-F6), unify without architectures (API only). "
                  "Both repairs (fixes/C15-F4.patch, fixes/C15-F6.patch) are modelled, proved to end on every input and to agree with today's code wherever today's code returns.")
    level_note = ("partial: proof for the modelled readers only; gzip/tar/yaml/json/ini decoding inside Split, ExpandApk, IndexFromArchive, ParsePackage, lock.FromFile, the YAML loader and baseimg.New is "
                  "explored with malformed streams and 2215 structured hostile inputs under recover + deadline + memory ceiling (not a proof). trusted: Coq kernel, goextract, harness; "
                  "modelled not verified: the Go text of the readers")
    design_ref = "DESIGN.md 7 C15"
    modelled_not_verified = ("readers' control flow modelled by hand in Model/Formats.v and Model/Parsers.v; line guards, case letters, regex literals, scanner limits and Err() checks, separators, "
                             "the ExpandApk switch table, stream limits, and the index / slice sites and length guards of every transcribed function are regenerated from the source (Generated/FieldLetters.v, C15Sites.v)")

PROP = P()
