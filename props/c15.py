import vlib

class P(vlib.Prop):
    id = "C15"
    watch = ("pkg/apk/apk/version.go", "pkg/apk/apk/apkindex.go", "pkg/apk/apk/installed.go", "pkg/apk/apk/package.go", "pkg/apk/apk/index.go", "pkg/apk/apk/install.go",
             "pkg/apk/expandapk/*.go", "pkg/passwd/*.go", "pkg/build/sbom.go", "pkg/build/lock.go", "pkg/build/layers.go", "pkg/lock/lock.go",
             "pkg/build/types/*.go", "pkg/baseimg/*.go", "pkg/tarfs/fs.go", "pkg/apk/fs/rwosfs.go")
    rule = ("one stage. (a) Coq cases: hand-picked corners first (every fixed defect and finding replay: 'P\\n', one-byte lines, empty tar entry name, empty path, "
            "negative layer budget), then the four line-oriented readers on mutated well-formed documents (truncation, byte/bit edits, splices, line edits); the "
            "implementation's outcome class (returned / error / panic / timeout, under recover and a 3 s deadline) is compared with the model's class and judged by the validator. "
            "(b) exploration in Go only, reported as IMPL-VIOLATION lines and counted in STAT: 14 readers (ParseVersion, ResolvePackageNameVersionPin, ParsePackageIndex, "
            "IndexFromArchive, ParseInstalled, expandapk.Split, ExpandApk, ParsePackage, UserFile.Load, GroupFile.Load, readReleaseData, lock.FromFile, ImageConfiguration.Load, baseimg.New) "
            "on the empty input, truncations at every offset (sampled above 600 bytes), and random 1-3 step mutations of well-formed documents, plus oversized lines/members; "
            "crashes that recover cannot catch (stack overflow) are probed in child processes. distinct = distinct case terms.")
    stages = (
        dict(name="readers", cmd="c15", args=lambda t, s: []),
        dict(name="sites", cmd="c15", args=lambda t, s: ["-stage", "sites"]),
        dict(name="decoders", cmd="c15", args=lambda t, s: ["-stage", "decoders"]),
    )
    assumptions = (
        "library decoders (gzip, tar, yaml, json, ini, base64, regexp, bufio, strconv) are not modelled: their behaviour on malformed input is explored by the harness, not proved",
        "the regexp engine returns submatch vectors of 1 + NumSubexp entries; the group counts are computed from the regex literals goextract reads from version.go",
        "M: lines that do not directly follow their F: line are outside the model (stale pointer after slice growth); such mutated texts are run in Go only",
    )
    level_text = ("For the line-oriented readers (ParsePackageIndex, ParseInstalled + parseInstalledPerms, UserFile.Load, GroupFile.Load) and the indexing sites of ParseVersion, "
                  "ResolvePackageNameVersionPin, cachedPackage, the theorems state for ALL inputs that the model, written with checked slicing, returns a result or an error (never Panic, never out of fuel); "
                  "every loop is a structural recursion on the scanned lines. Four sites are refuted with witnesses replayed on the real code (empty tar entry name, negative layer budget, "
                  "standardizePath(\"\"), self-child directory in sortTarHeaders) and proved safe outside the witness class. Decoding done by libraries is exploration, labelled as such.")
    level_note = ("partial: proof for the modelled readers only; gzip/tar/yaml/json/ini decoding, Split, ExpandApk, IndexFromArchive, lock.FromFile, the YAML loader and baseimg.New are "
                  "explored with malformed streams under recover + deadline (not a proof). trusted: Coq kernel, goextract, harness; modelled not verified: the Go text of the readers")
    design_ref = "DESIGN.md 7 C15"
    modelled_not_verified = ("readers' control flow modelled by hand in Model/Formats.v and Model/Parsers.v; line guards, case letters, regex literals and scanner limits are regenerated from the source")

PROP = P()
