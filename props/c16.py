import vlib

class P(vlib.Prop):
    id = "C16"
    rule = ("one stage: a corpus of hand-picked corners (every fixed defect and every recorded finding), then generated package records "
            "(half with every field populated, half mixed with empty/zero fields; integers from {0,1,..,2^63,2^64-1}; build times incl. the zero time, "
            "the epoch and int64 extremes) written by the real ArchiveFromIndex / AddInstalledPackage / UserFile.Write / GroupFile.Write and read back by the "
            "real IndexFromArchive / ParseInstalled / Load, then written again; file lists are random directory trees (parents present, names spelled "
            "'usr/', 'usr', './usr/'), modes/uids/gids/checksums from corner sets, plus a smaller stream outside the envelope (orphans, top-level leaves, "
            "duplicates); readers are also run on mutated well-formed texts (truncation, byte edits, line edits, CRLF). Every case is compared with the model "
            "(writer bytes, reader structures) and judged by the round-trip validators inside Coq. distinct = distinct case terms; no case is trivial.")
    stages = (
        dict(name="formats", cmd="c16", args=lambda t, s: []),
    )
    assumptions = (
        "base64/hex codecs are Go library code: theorems quantify over any codec with dec (enc b) = Some b; the field-level theorems ask of the encoded checksum what they ask of a text field (no LF, no final CR, fits); per case the harness supplies what Go's codecs answered",
        "fields contain no LF and do not end in CR (bufio.ScanLines treats CRLF as the line terminator); list items are non-empty and contain no space; passwd/group fields contain no ':' (members no ','), the first has no leading and the last no trailing ASCII space",
        "file lists (installed db): cleaned names pairwise different and none is '.'; every ancestor of every entry is present as a directory entry and top-level entries have a child (outside: C16-F5, C16-F7, C15-F4); non-directory names do not end in a '.', '..' component; uid/gid fit Go's int; names contain neither LF nor CR",
        "every field with its letter, colon and terminator is shorter than the reader's token limit (whatever ParsePackageIndex / ParseInstalled hand to Scanner.Buffer, today 1 MiB each, read by goextract; 64 KiB for passwd and group); numbers need no condition beyond their Go range (a uint64/int64 prints in at most 20 characters, proved)",
        "build times are whole seconds (the formats carry Unix seconds); uint64/int64/uint32 ranges as in the Go types",
        "M:/a: lines directly follow their F:/R: line (otherwise Go's pointer into pkg.Files may be stale after a reallocation; not modelled)",
    )
    level_text = ("Proved for all inputs, no bound on sizes: APKINDEX round-trip and read-write fixpoint (replaces refuted, C16-F3); passwd round-trip and fixpoint; "
                  "group round-trip (the one list the format cannot carry, [\"\"], refuted) and fixpoint; sortTarHeaders inside its envelope "
                  "(result independent of the map iteration order, a permutation of the input, every file governed by the preceding directory entry, fuel suffices; each "
                  "envelope condition shown necessary by a witness); installed-db round-trip PARTIAL: every package field except install_if (refuted, C16-F1) and every file "
                  "record's path, kind, mode, uid, gid but not its checksum (refuted, C16-F2) survive AddInstalledPackage then ParseInstalled; installed-db read-then-re-write "
                  "FULL inside the envelope (c16_installed_fixpoint): the second text is the first one minus the Z: lines and with the i: line wrapped in one more pair of "
                  "brackets, every other line identical (sortTarHeaders is invariant under permutation of its input and commutes with the reader's renaming of the entries); "
                  "no clause about trailing slashes since fix 8e9dafb (the writer strips all of them: goextract reads which strings.Trim* function the source uses, the regression replay a// is written F:a both times); 'the written lines fit the scanner' is DERIVED from "
                  "conditions on the fields and the token limits read from the source (index and installed db), so the round-trip theorems exist with hypotheses on fields only; "
                  "the fuel of the validator's reachability test is enough for every truly reachable entry; the readers' switch tables (case letters, assigned fields, line guards) "
                  "are pinned to the source and letters outside them are ignored, repeated fields overwrite (except an un-prefixed C:), passwd/group lines with a wrong number of "
                  "colons are errors; a database of SEVERAL records (AddInstalledPackage for each in turn, Model.write_db) is read back record for record, each as if alone, and "
                  "written again it is the old file minus the Z: lines and with other i: lines (c16_installed_db_roundtrip / _fixpoint); a passwd/group reader that succeeds returns exactly one entry per line of any text (unterminated last line included); every validator (index, installed, installed-fixpoint, sort, passwd, group) decides its readable Prop. The model's writers are interpreted "
                  "from the template rows / fmt formats / separators / scanner limits that goextract reads from the source on every run; the model is tied to the code by "
                  "differential comparison of written bytes, sorted header lists and read structures, and the verified validators are run on the implementation's own outputs.")
    level_note = ("trusted: Coq kernel, goextract, Go harness/printer; modelled not verified: Go text of the readers' control flow, text/template, fmt, bufio.Scanner, path/filepath "
                  "(Clean/Dir/Base/Join/Rel are transcribed and compared case by case; their properties are proved about the transcription), base64/hex; correspondence is "
                  "differential testing, not proof; long-line behaviour (>= 64 KiB) is judged in Go only; file names are asked to be free of CR altogether (sufficient, "
                  "not necessary: only a final CR of the written component matters)")
    design_ref = "DESIGN.md 7 C16"
    watch = ("pkg/apk/apk/apkindex.go", "pkg/apk/apk/installed.go", "pkg/apk/apk/package.go", "pkg/apk/apk/common.go", "pkg/passwd/passwd.go", "pkg/passwd/group.go")
    modelled_not_verified = ("ParsePackageIndex / ParseInstalled / parseInstalledPerms / sortTarHeaders / sanitizeArchivePath (filepath.Rel test) / UserEntry.Parse / GroupEntry.Parse "
                             "control flow and path/filepath's Clean, Dir, Base, Join, Rel are modelled by hand (Model/Formats.v); template rows, fmt formats, separators, default modes, "
                             "mode mask, the function that trims a directory name's trailing slashes, scanner limits, whether Scanner.Err is looked at, and the readers' case letters / assigned fields / line guards are regenerated from the source")

PROP = P()
