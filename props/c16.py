import vlib

class P(vlib.Prop):
    id = "C16"
    rule = ("one stage: a corpus of hand-picked corners (every fixed defect and every recorded finding), then generated package records "
            "(half with every field populated, half mixed with empty/zero fields; integers from {0,1,..,2^63,2^64-1}; build times incl. the zero time, "
            "the epoch and int64 extremes) written by the real ArchiveFromIndex / AddInstalledPackage / UserFile.Write / GroupFile.Write and read back by the "
            "real IndexFromArchive / ParseInstalled / Load, then written again; file lists are random directory trees (parents present, names spelled "
            "'usr/', 'usr', './usr/'), modes/uids/gids/checksums from corner sets, plus a smaller stream outside the envelope (orphans, top-level leaves, "
            "duplicates); readers are also run on mutated well-formed texts (truncation, byte edits, line edits, CRLF). Every case is compared with the model "
            "(writer bytes, reader structures) and judged by the round-trip validators inside Coq. distinct = distinct case terms; no case is trivial.")
    stages = (
        dict(name="formats", cmd="c16", args=lambda t, s: []),
    )
    assumptions = (
        "base64/hex codecs are Go library code: theorems quantify over any codec with dec (enc b) = Some b whose output has no CR/LF; per case the harness supplies what Go's codecs answered",
        "fields contain no LF and do not end in CR (bufio.ScanLines treats CRLF as the line terminator); list items are non-empty and contain no space; passwd/group fields contain no ':' (members no ','), the first has no leading and the last no trailing ASCII space",
        "every written line is shorter than the reader's token limit (1 MiB for the index, bufio's default 64 KiB for the installed db, passwd and group)",
        "build times are whole seconds (the formats carry Unix seconds); uint64/int64/uint32 ranges as in the Go types",
        "M:/a: lines directly follow their F:/R: line (otherwise Go's pointer into pkg.Files may be stale after a reallocation; not modelled)",
    )
    level_text = ("Round-trip theorems (index, installed-db partial, passwd, group, read-write fixpoint, sortTarHeaders facts) are proved for all records with no bound on sizes, "
                  "about an executable model whose writers are interpreted from the template rows / fmt formats / separators that goextract reads from the source on every run; "
                  "the model is tied to the code by differential comparison of written bytes and read structures, and the verified validators are run on the implementation's own outputs.")
    level_note = ("trusted: Coq kernel, goextract, Go harness/printer; modelled not verified: Go text of the readers' control flow, text/template, fmt, bufio.Scanner, path/filepath, "
                  "base64/hex; correspondence is differential testing, not proof; long-line behaviour (>= 64 KiB) is judged in Go only")
    design_ref = "DESIGN.md 7 C16"
    modelled_not_verified = ("ParsePackageIndex / ParseInstalled / parseInstalledPerms / sortTarHeaders / UserEntry.Parse / GroupEntry.Parse control flow is modelled by hand "
                             "(Model/Formats.v); template rows, fmt formats, separators, default modes, scanner limits are regenerated from the source")

PROP = P()
