import vlib

class P(vlib.Prop):
    id = "C17"
    rule = ("one stage: a corpus of hand-picked operation sequences (replays of the two repaired panics, one scenario per known corner, "
            "symlink chains of 39/40/41 links, 39/40/41 sequential absolute links, lexical '..' targets, hard links, handles that outlive "
            "their name, read/write/seek patterns around EOF), then random sequences of 5..40 operations over 6 names and 3 directory levels "
            "(relative / absolute / looping / '..' link targets; a quarter with un-normalised paths; a quarter 'tame' = safe on a host directory) "
            "run through the public FullFS interface of apkfs.NewMemFS(), tarfs.New() and, for the tame ones, apkfs.DirFS(tmpdir). "
            "Every step's return value and error class is recorded. A case is one sequence on one backend; distinct = distinct case terms; "
            "a case is trivial only if it has no operations.")
    stages = (
        dict(name="sequences", cmd="c17", args=lambda t, s: []),
    )
    assumptions = (
        "permission arguments carry no file-type bits (the model keeps kind and permission bits apart)",
        "the tar-entry side channel of pkg/tarfs (WriteHeader, tar-backed reads, hardlinks map) is outside the operation alphabet",
        "one goroutine: the per-directory mutexes are not modelled",
        "the modification time of a node that was never Chtimes'd, link counts and node names are not observed",
        "the directory-backed filesystem is validated against the reference by the correspondence only; the host kernel is not modelled",
    )
    level_text = ("The reference filesystem (Spec/FsSpec.v) satisfies the laws of the property for every state and operation; the executable model of "
                  "memfs.go and tarfs/fs.go takes exactly the reference's step on every state and operation inside the stated envelope E, hence on every "
                  "operation sequence that stays inside it; every corner outside E is refuted with a concrete witness. The model is tied to the code by per-step "
                  "differential comparison of every return value and error class, and the reference step is evaluated next to every observed step.")
    level_note = ("trusted: Coq kernel, goextract, Go harness/printer; modelled not verified: the Go text of memfs.go / tarfs/fs.go (hand-written model, "
                  "differentially tested), Go maps, filepath.Clean/Dir/Base/Join (transcribed); rwosfs.go only through the correspondence")
    design_ref = "DESIGN.md 7 C17, Appendix A.2"
    modelled_not_verified = ("memFS/tarfs methods and memFile are modelled by hand (Model/MemFS.v); maxLinks and the two comparisons against it are regenerated "
                             "from the source; dirFS (rwosfs.go), SubFS (sub.go) and the host kernel are exercised by the correspondence only")

PROP = P()
