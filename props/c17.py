import vlib

class P(vlib.Prop):
    id = "C17"
    watch = ("pkg/apk/fs/memfs.go", "pkg/tarfs/fs.go", "pkg/apk/fs/rwosfs.go", "pkg/apk/fs/sub.go")
    rule = ("stage sequences: a corpus of hand-picked operation sequences (replays of the two repaired panics, one scenario per known corner, "
            "symlink chains of 39/40/41 links, 39/40/41 sequential absolute links, lexical '..' targets, the witnesses of the syntactic class "
            "(links through links, link budget per lookup, tarfs MkdirAll('.')), scenarios of what dirFS decides itself (overlay/host drift, "
            "Create('.'), climbing and rooted Link names, link(2) on a symlink, Stat mixing, un-normalised non-climbing names, ROOTED names, Mknod/Readnod "
            "with the Mknod-on-a-taken-name regression replay of C17-F20), hard links, handles that outlive their name, read/write/seek patterns around EOF, one scenario that "
            "shows every operation kind with every result class its model can produce), then random sequences of 5..40 operations over 6 names and 3 directory "
            "levels (relative / absolute / looping / '..' link targets; a quarter with un-normalised paths; a quarter 'tame' = safe on a host directory, rooted "
            "names and Mknod/Readnod included) run through the public FullFS interface of apkfs.NewMemFS(), tarfs.New() and, for the tame ones, apkfs.DirFS(tmpdir); "
            "subfs cases: sequences on an in-memory filesystem in which most operations go through &apkfs.SubFS{FS, Root} (seven scenarios: joined names, '..' escapes, "
            "Symlink/Link through the view (regression replay of C17-F22), a rooted root, links inside, a missing root, a root that is a file; then random ones with names that try to leave the root). "
            "stage tarentry: WriteHeader calls (regular files of one package origin, the opener's files being the harness's) mixed with FullFS operations on the real tarfs "
            "(WriteHeader of regular files, directories, symbolic links and hard links; 17 scenarios: reads before any write, truncation, overwrite, buffering on write intent, the read-only-handle corner, hard link, remove, existing names, append, "
            "empty entry, through links, directory / symlink / hard-link headers, metadata; then random ones). "
            "Every step's return value and error class is recorded; in Coq every step is compared with the model of its backend (memFS / tarfs model; "
            "for DirFS the overlay+host model of rwosfs.go, on every step, inside the envelope or not; for subfs the parent's model on the joined operation; for tarentry "
            "Model/TarEntry.v) and with the reference step (subfs: of the operation at root/name; tarentry: on the plain filesystem the state stands for). "
            "A case is one sequence on one backend; distinct = distinct case terms; a case is trivial only if it has no operations. The run prints the distribution of "
            "operations x result classes (per target), of path shapes and sequence lengths, and the list of modelled (operation, class) pairs it did not exercise (empty).")
    stages = (
        dict(name="sequences", cmd="c17", args=lambda t, s: []),
        dict(name="tarentry", cmd="c17", args=lambda t, s: ["-mode", "tarentry"]),
    )
    assumptions = (
        "permission arguments carry no file-type bits (the model keeps kind and permission bits apart)",
        "the tar-entry side channel of pkg/tarfs is modelled for WriteHeader of regular files, symbolic links (checksum record), directories and hard links, one package origin, "
        "no replaces, no xattr records; lazy reads through an opener whose files are the harness's and read like memFile; the hardlinks map and conflicts between packages are C06/C07's",
        "SubFS: the view is built as &SubFS{FS, Root} with a non-empty root; its constructors (memFS.Sub, apkfs.Sub), Open/OpenReaderAt and SubFS.Sub are not exercised",
        "one goroutine: the per-directory mutexes are not modelled",
        "the modification time of a node that was never Chtimes'd, link counts and node names are not observed",
        "the directory-backed filesystem: case-sensitive host; the host side of its model is the reference filesystem (plus four recorded Linux/Go choices: "
        "zero-length reads, link(2) order and no-follow, EEXIST at '.', rmdir(base)); host permission checks and umask are not modelled (the harness runs as root, observed modes come from the overlay); "
        "Mknod is issued with a mode without type bits, so mknod(2) makes a regular file on the host (no privilege needed); the state after os.Remove('.') removed an empty base directory is not modelled "
        "(the comparison of that sequence ends there)",
    )
    level_text = ("The reference filesystem (Spec/FsSpec.v) satisfies the laws of the property for every state and operation; the executable model of "
                  "memfs.go and tarfs/fs.go takes exactly the reference's step on every state and operation inside the stated envelope E, hence on every "
                  "operation sequence that stays inside it; every corner outside E is refuted with a concrete witness. Every state the code can reach (any "
                  "sequence, corners included) is well-formed, so read-after-write and metadata-last-set hold there without side conditions. The semantic "
                  "link-agreement clauses of E follow from a syntactic class: link targets relative, of ordinary names (then getNode's nesting limit IS the "
                  "reference's total budget, for every limit) plus a weight on names; tameness AND the weight certificate are invariants of the code's steps "
                  "(a condition on each Symlink operation alone), so for EVERY finite sequence of operations of the class, with no premise on intermediate states, "
                  "the link clause never fails first and the run is the reference's run or first departs at another recorded corner (c17_refines_sequences). "
                  "The model of the directory-backed filesystem (overlay memFS + host) takes the reference's step on synchronised states for normalised names, "
                  "ROOTED ones included, Mknod/Readnod included, inside the overlay's envelope or — for tame, weight-respecting sequences — inside its syntactic "
                  "substitute; it drifts apart outside (witness). The sub-filesystem view is the parent at root/name for names without '..' and lexically confined to "
                  "its root there, Symlink and Link included (repaired by 44061d3); '..' escapes (refuted, replayed, recorded). dirFS.Mknod of a taken name answers ErrExist and changes nothing (repaired by bfd5027). The tar-entry channel of tarfs extends the tree "
                  "model conservatively; a package's file under a fresh root name reads and stats as the entry's bytes; a hard-link header is Link (same inode, same entry), a directory header is mkdir -p then Chtimes, "
                  "a link header under a fresh root name reads back its target and is idempotent; a read-only handle of a not-yet-loaded file is the "
                  "opener's file (refuted: stale after a write, no Seek). The models are tied to the code by per-step differential comparison of every return value and "
                  "error class on all five kinds of filesystem, and the reference step is evaluated next to every observed step.")
    level_note = ("trusted: Coq kernel, goextract, Go harness/printer; modelled not verified: the Go text of memfs.go / tarfs/fs.go (hand-written model, "
                  "differentially tested), Go maps, filepath.Clean/Dir/Base/Join (transcribed); rwosfs.go (hand-written model Model/DirFS.v, differentially tested on a real temp directory; "
                  "its host side is the reference filesystem, not the kernel); sub.go (Model/SubFS.v: filepath.Join transcribed, differentially tested); the tar-entry channel "
                  "(Model/TarEntry.v, differentially tested against tarfs with the harness's opener)")
    design_ref = "DESIGN.md 7 C17, Appendix A.2"
    modelled_not_verified = ("memFS/tarfs methods and memFile are modelled by hand (Model/MemFS.v); maxLinks and the two comparisons against it are regenerated "
                             "from the source; dirFS (rwosfs.go) is modelled by hand for a case-sensitive host (Model/DirFS.v); its case-insensitive mode, Open/sanitizePath "
                             "and the host kernel itself are not modelled; SubFS (sub.go) and the tar-entry channel of tarfs (regular files) are modelled by hand "
                             "(Model/SubFS.v, Model/TarEntry.v); the SubFS constructors, Open/OpenReaderAt, WriteHeader's xattr records and inter-package conflicts are not")

    def post_replay(self, rp):
        """cut the failing sequence of a violation replay down (harness: c17 -shrink); best effort"""
        import os, subprocess
        try:
            out = subprocess.run([os.path.join(vlib.BUILD, "bin", "c17"), "-shrink", rp, "-coq", vlib.COQ],
                                 capture_output=True, text=True, timeout=600)
            for ln in out.stdout.splitlines():
                if ln.startswith("SHRUNK"):
                    print(ln)
        except Exception as e:  # never turn a verdict into a crash
            print("shrink skipped: %s" % e)

PROP = P()
