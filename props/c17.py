import vlib

class P(vlib.Prop):
    id = "C17"
    watch = ("pkg/apk/fs/memfs.go", "pkg/tarfs/fs.go", "pkg/apk/fs/rwosfs.go")
    rule = ("one stage: a corpus of hand-picked operation sequences (replays of the two repaired panics, one scenario per known corner, "
            "symlink chains of 39/40/41 links, 39/40/41 sequential absolute links, lexical '..' targets, the witnesses of the syntactic class "
            "(links through links, link budget per lookup, tarfs MkdirAll('.')), six scenarios of what dirFS decides itself (overlay/host drift, "
            "Create('.'), climbing and rooted Link names, link(2) on a symlink, Stat mixing, un-normalised non-climbing names), hard links, handles "
            "that outlive their name, read/write/seek patterns around EOF), then random sequences of 5..40 operations over 6 names and 3 directory levels "
            "(relative / absolute / looping / '..' link targets; a quarter with un-normalised paths; a quarter 'tame' = safe on a host directory) "
            "run through the public FullFS interface of apkfs.NewMemFS(), tarfs.New() and, for the tame ones, apkfs.DirFS(tmpdir). "
            "Every step's return value and error class is recorded; in Coq every step is compared with the model of its backend (memFS / tarfs model; "
            "for DirFS the overlay+host model of rwosfs.go, on every step, inside the envelope or not) and with the reference step. "
            "A case is one sequence on one backend; distinct = distinct case terms; "
            "a case is trivial only if it has no operations.")
    stages = (
        dict(name="sequences", cmd="c17", args=lambda t, s: []),
        dict(name="tarentry", cmd="c17", args=lambda t, s: ["-mode", "tarentry"]),
    )
    assumptions = (
        "permission arguments carry no file-type bits (the model keeps kind and permission bits apart)",
        "the tar-entry side channel of pkg/tarfs (WriteHeader, tar-backed reads, hardlinks map) is outside the operation alphabet",
        "one goroutine: the per-directory mutexes are not modelled",
        "the modification time of a node that was never Chtimes'd, link counts and node names are not observed",
        "the directory-backed filesystem: case-sensitive host; the host side of its model is the reference filesystem (plus four recorded Linux/Go choices: "
        "zero-length reads, link(2) order and no-follow, EEXIST at '.', rmdir(base)); host permission checks and umask are not modelled (the harness runs as root, observed modes come from the overlay)",
    )
    level_text = ("The reference filesystem (Spec/FsSpec.v) satisfies the laws of the property for every state and operation; the executable model of "
                  "memfs.go and tarfs/fs.go takes exactly the reference's step on every state and operation inside the stated envelope E, hence on every "
                  "operation sequence that stays inside it; every corner outside E is refuted with a concrete witness. Every state the code can reach (any "
                  "sequence, corners included) is well-formed, so read-after-write and metadata-last-set hold there without side conditions. The semantic "
                  "link-agreement clauses of E follow from a syntactic class: link targets relative, of ordinary names (then getNode's nesting limit IS the "
                  "reference's total budget, for every limit) plus a weight certificate for the paths through openFile/MkdirAll; the class is closed under the "
                  "code's steps. The model of the directory-backed filesystem (overlay memFS + host) takes the reference's step on synchronised states for "
                  "normalised relative names inside the overlay's envelope, and drifts apart outside (witness). The models are tied to the code by per-step "
                  "differential comparison of every return value and error class on all three filesystems, and the reference step is evaluated next to every observed step.")
    level_note = ("trusted: Coq kernel, goextract, Go harness/printer; modelled not verified: the Go text of memfs.go / tarfs/fs.go (hand-written model, "
                  "differentially tested), Go maps, filepath.Clean/Dir/Base/Join (transcribed); rwosfs.go (hand-written model Model/DirFS.v, differentially tested on a real temp directory; "
                  "its host side is the reference filesystem, not the kernel)")
    design_ref = "DESIGN.md 7 C17, Appendix A.2"
    modelled_not_verified = ("memFS/tarfs methods and memFile are modelled by hand (Model/MemFS.v); maxLinks and the two comparisons against it are regenerated "
                             "from the source; dirFS (rwosfs.go) is modelled by hand for a case-sensitive host (Model/DirFS.v); its case-insensitive mode, Open/sanitizePath, "
                             "SubFS (sub.go) and the host kernel itself are not modelled")

    def post_replay(self, rp):
        """cut the failing sequence of a violation replay down (harness: c17 -shrink); best effort"""
        import os, subprocess
        try:
            out = subprocess.run([os.path.join(vlib.BUILD, "bin", "c17"), "-shrink", rp, "-coq", vlib.COQ],
                                 capture_output=True, text=True, timeout=600)
            for ln in out.stdout.splitlines():
                if ln.startswith("SHRUNK"):
                    print(ln)
        except Exception as e:  # never turn a verdict into a crash
            print("shrink skipped: %s" % e)

PROP = P()
