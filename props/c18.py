import vlib

class P(vlib.Prop):
    id = "C18"
    watch = ("pkg/apk/fs/rwosfs.go", "pkg/apk/fs/memfs.go", "pkg/tarfs/fs.go", "pkg/apk/apk/install.go", "pkg/apk/apk/cache.go",
             "pkg/apk/apk/implementation.go", "pkg/apk/apk/common.go", "pkg/apk/apk/index.go", "pkg/apk/expandapk/expandapk.go")
    rule = ("paths stage: hand-picked corners then generated hostile text (.., absolute names, doubled slashes, trailing dots, %-escapes, 300-byte names, "
            "NUL / invalid UTF-8, sibling-prefix roots) run through the REAL filepath.Clean/Join/Base/Dir/Ext/Abs/Rel, sanitizePath, sanitizeArchivePath, "
            "etagFromResponse, cacheFileFromEtag, cacheDirFromFile, url.QueryEscape, cachePathFromURL, cacheDirForPackage, InitKeyring (key naming, canned transport), "
            "the key-name check of parseRepositoryIndex, hex.DecodeString and the two names cachedPackage builds from a datahash, and Lstat on both in-memory trees "
            "(tree printed from the real filesystem); every output is compared with the Coq model and judged by the validators. canary stage: a temp tree "
            "<tmp>/n1/../n7/T/{root,cache,tmp,out} + decoys at every level (so that a name climbing up to nine levels still lands inside the snapshotted tree) is "
            "snapshotted (path, type, permissions, link count, content hash) before and after (a) operation sequences on DirFS(root); (b) hostile packages — "
            "regular-file, symlink, hard-link and directory entries under every climbing name (one to five levels, into existing siblings, into new outside "
            "directories, absolute, '//', './../', re-entering), one entry per package and random mixes — through installAPKFiles and through the whole "
            "InstallPackages pipeline on the directory-backed (streaming installer), the tar-backed (lazy installer) and the in-memory filesystem, with and "
            "without the disk cache; (c) InitKeyring with hostile key locations (percent-encoded separators and dot-dots in the last segment, queries, fragments, "
            "trailing slashes, backslashes) served by a real HTTP server and read from local paths, onto DirFS(root), with hostile ETag headers and a disk cache; "
            "(d) package and index URLs of the same kinds through FetchPackage / GetRepositoryIndexes with a disk cache; (e) key discovery with hostile key ids; "
            "(f) cachedPackage with a planted control section whose datahash points anywhere (and a planted member there), and fresh fetches of such packages. "
            "Every change outside the four designated directories is handed to the verified validator `escapes` and must be explained by the model as one of "
            "the recorded findings: F1 only for calls that reach the os package on the unchanged code (host-first methods, or tree-checked ones after an "
            "enabling MkdirAll), F2 only through an accepted call; anything else is a violation. A case is non-trivial unless the input is already clean / "
            "empty; distinct = distinct case terms.")
    stages = (
        dict(name="paths", cmd="c18", args=lambda t, s: ["-stage", "paths"]),
        dict(name="canary", cmd="c18", args=lambda t, s: ["-stage", "canary"]),
    )
    assumptions = (
        "paths are byte strings and '/' is the only separator (Linux); filepath.Abs is modelled with the working directory as an explicit argument",
        "net/url's URL.String() is not modelled: the model of cachePathFromURL takes the printed URL as an argument and c18_cache_path_accepts assumes it contains a '/' "
        "(true of every URL with an absolute path); the harness reports the string computed with the same field edits and the model re-derives it for plain URLs",
        "the host kernel resolves a symbolic link found on the way to a path (Model.Confine.resolve); hard links share content with their source",
        "callers hand cachePathFromURL only http(s)/file URLs, whose path is absolute or empty",
        "the operational dirFS theorems are about Model/DirFS.v (written and tied to the code by C17's correspondence: every step of every DirFS sequence); "
        "its host is a reference filesystem rooted at the base, so WHERE a climbing name lands is said by the lexical model (c18_clean_join_under), "
        "THAT the host executes the call by the operational one; the order of the two calls in each method is re-read from rwosfs.go on every run",
        "a cache directory's content is apko's own (c18_cache_member_datahash_reachable); c18_cache_member holds for any content",
    )
    level_text = ("Theorems about executable models of apko's path handling, for all byte strings: lexical confinement of clean(join(base,p)) characterised at component level; "
                  "sanitizePath / sanitizeArchivePath / dirFS.Link's test are sound (component-wise since the fixes) and the old string-prefix test is refuted; "
                  "every ETag header value becomes one path component over the generated base32 alphabet and its cache file stays in its directory; the cache path of every URL "
                  "is strictly below the cache root; key files are stored under a single component; lookups in the in-memory trees never leave the tree; "
                  "the directory-backed filesystem is NOT confined (refuted with the two recorded witnesses) and, over the operational model of dirFS, exactly "
                  "which methods have the host execute the call before the in-memory tree can refuse the name (all but Create / OpenFile(O_CREATE) / Remove — finding C18-F1), "
                  "with the positive complement that an operation whose names have no '..' component changes the host only below the base; "
                  "everything cachedPackage creates for a cached datahash lies in the cache directory whatever the datahash text is (the os.Stat that precedes the hex check can be aimed outside: refuted as a read-confinement claim). "
                  "The model is tied to the code by goextract (encoding, extensions, shape of each containment test, key path, maxLinks, order of host and overlay calls in every dirFS method, "
                  "cachedPackage's suffixes and the position of its hex check) and by differential comparison with the real functions; "
                  "the canary-tree experiment validates confinement on the real implementation.")
    level_note = ("trusted: Coq kernel, goextract, Go harness/printer, the snapshot differ; modelled not verified: Go text of the path functions, path/filepath, net/url, encoding/hex, the host kernel; "
                  "correspondence and canary runs are testing, not proof")
    design_ref = "DESIGN.md 7 C18"
    modelled_not_verified = ("sanitizePath, sanitizeArchivePath, dirFS.Link's check, etagFromResponse, cacheFileFromEtag, cachePathFromURL, cacheDirForPackage, InitKeyring's key path, the key-name "
                             "check, getNodeCountLinks, cachedPackage's member names / hex check / PackageData's temporary file, and verifyExpanded's datahash test are modelled by hand "
                             "(Model/Confine.v over Base/C18Path.v); the operational dirFS model is C17's (Model/DirFS.v); URL.String(), archive/tar, net/http, expandapk.ExpandApk's temporary "
                             "files, fetchAlpineKeys' decoded key name and the kernel's path resolution are exercised by the canary only")

PROP = P()
