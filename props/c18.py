import vlib

class P(vlib.Prop):
    id = "C18"
    watch = ("pkg/apk/fs/rwosfs.go", "pkg/apk/fs/memfs.go", "pkg/tarfs/fs.go", "pkg/apk/apk/install.go", "pkg/apk/apk/cache.go",
             "pkg/apk/apk/implementation.go", "pkg/apk/apk/common.go", "pkg/apk/apk/index.go", "pkg/apk/expandapk/expandapk.go")
    rule = ("paths stage: hand-picked corners then generated hostile text (.., absolute names, doubled slashes, trailing dots, %-escapes, 300-byte names, "
            "NUL / invalid UTF-8, sibling-prefix roots) run through the REAL filepath.Clean/Join/Base/Dir/Ext/Abs/Rel, sanitizePath, sanitizeArchivePath, "
            "etagFromResponse, cacheFileFromEtag, cacheDirFromFile, url.QueryEscape, cachePathFromURL, cacheDirForPackage, InitKeyring (key naming, canned transport), "
            "the key-name check of parseRepositoryIndex, hex.DecodeString and the two names cachedPackage builds from a datahash, and Lstat on both in-memory trees "
            "(tree printed from the real filesystem); every output is compared with the Coq model and judged by the validators. canary stage: a temp tree "
            "<tmp>/n1/../n7/T/{root,cache,tmp,out} + decoys at every level (so that a name climbing up to nine levels still lands inside the snapshotted tree) is "
            "snapshotted (path, type, permissions, link count, content hash) before and after (a) operation sequences on DirFS(root); (b) hostile packages — "
            "regular-file, symlink, hard-link and directory entries under every climbing name (one to five levels, into existing siblings, into new outside "
            "directories, absolute, '//', './../', re-entering), one entry per package and random mixes — through installAPKFiles and through the whole "
            "InstallPackages pipeline on the directory-backed (streaming installer), the tar-backed (lazy installer) and the in-memory filesystem, with and "
            "without the disk cache; (c) InitKeyring with hostile key locations (percent-encoded separators and dot-dots in the last segment, queries, fragments, "
            "trailing slashes, backslashes) served by a real HTTP server and read from local paths, onto DirFS(root), with hostile ETag headers and a disk cache; "
            "(d) package and index URLs of the same kinds through FetchPackage / GetRepositoryIndexes with a disk cache; (e) key discovery with hostile key ids; "
            "(f) cachedPackage with a planted control section whose datahash points anywhere (and a planted member there), and fresh fetches of such packages; "
            "(g) the class climb-link, judged by the operational model of dirFS on a host WITH a parent directory (Model/ConfineHost.v: overlay + kernel path "
            "resolution; the host tree is printed before each experiment): relative symbolic links made at depth 0..2 whose targets climb 0..3 levels above the "
            "root, host directories at every place such a target can name (T/victim, n7/victim, n6/victim, n5/victim), with and without an in-root directory "
            "where the in-memory tree's reading of the target lands, reached directly or through a detour (d1/d2/up -> ../..), clean / unclean (a/../..) / "
            "absolute targets, followed by Create, Remove, MkdirAll, Mkdir, WriteFile, Link (new and old name beneath), Chmod, Mknod, Symlink beneath the link — as "
            "direct dirFS operation sequences (the model must give the same answer for EVERY operation and the same changed places inside and outside the root) "
            "and as package entries through the installer; the witnesses of c18_dirfs_confined_refuted_operational replayed; the case-insensitive mode "
            "(DirFSWithCaseSensitive(false)): host calls must be a subset of the model's; the class preexisting: a FRESH DirFS opened on a root populated beforehand "
            "(plain os calls / an earlier DirFS session) with links of every kind, directories, files and a hard link — its own ReadDir+Readlink picture must be the "
            "host's lstat image, then operations and package entries beneath and at those names. paths stage also: url.PathUnescape and the alpine key file name, "
            "os.CreateTemp / os.MkdirTemp names for 15 patterns, everything expandapk.ExpandApk creates in the directory it is given, the whole cache root after a real "
            "install of a signed and an unsigned package through the disk cache (PCacheNames: cachePackage's advertised names), and the place-returning "
            "lookup of the operational model against getNodeCountLinks' answer on every tree-lookup case. "
            "Every change outside the four designated directories is handed to the verified validator `escapes` and must be explained by the model as one of "
            "the recorded findings: F1 only for calls that reach the os package on the unchanged code (host-first methods, or tree-checked ones after an "
            "enabling MkdirAll), F2 only through an accepted call, F6 (class climb-link) only for a tree-checked call that the MODEL's overlay accepts too; "
            "anything else is a violation. A case is non-trivial unless the input is already clean / "
            "empty; distinct = distinct case terms.")
    stages = (
        dict(name="paths", cmd="c18", args=lambda t, s: ["-stage", "paths"]),
        dict(name="canary", cmd="c18", args=lambda t, s: ["-stage", "canary"]),
    )
    assumptions = (
        "paths are byte strings and '/' is the only separator (Linux); filepath.Abs is modelled with the working directory as an explicit argument",
        "net/url's URL.String() is not modelled: the model of cachePathFromURL takes the printed URL as an argument and c18_cache_path_accepts assumes it contains a '/' "
        "(true of every URL with an absolute path); the harness reports the string computed with the same field edits and the model re-derives it for plain URLs",
        "the host kernel resolves a symbolic link found on the way to a path (Model.Confine.resolve); hard links share content with their source",
        "callers hand cachePathFromURL only http(s)/file URLs, whose path is absolute or empty",
        "the operational dirFS theorems are about Model/DirFS.v (written and tied to the code by C17's correspondence: every step of every DirFS sequence); "
        "its host is a reference filesystem rooted at the base, so WHERE a climbing name lands is said by the lexical model (c18_clean_join_under), "
        "THAT the host executes the call by the operational one; the order of the two calls in each method is re-read from rwosfs.go on every run",
        "a cache directory's content is apko's own (c18_cache_member_datahash_reachable); c18_cache_member holds for any content",
        "the host of Model/ConfineHost.v is a tree of files, symbolic links and directories without permissions, contents or link counts (a hard link is a copy; "
        "the call reports its source as touched); the kernel follows at most [kfuel] steps; os.CreateTemp's random part is a non-empty run of decimal digits",
    )
    level_text = ("Theorems about executable models of apko's path handling, for all byte strings: lexical confinement of clean(join(base,p)) characterised at component level; "
                  "sanitizePath / sanitizeArchivePath / dirFS.Link's test are sound (component-wise since the fixes) and the old string-prefix test is refuted; "
                  "every ETag header value becomes one path component over the generated base32 alphabet and its cache file stays in its directory; the cache path of every URL "
                  "is strictly below the cache root; key files are stored under a single component; lookups in the in-memory trees never leave the tree; "
                  "the directory-backed filesystem is NOT confined (refuted with the two recorded witnesses) and, over the operational model of dirFS, exactly "
                  "which methods have the host execute the call before the in-memory tree can refuse the name (all but Create / OpenFile(O_CREATE) / Remove — finding C18-F1), "
                  "with the positive complement that an operation whose names do not climb lexically (a/../b included) changes the host only below the base; "
                  "on a host WITH a parent directory (kernel path resolution modelled: '..' to the physical parent, links followed as each call follows them): "
                  "if no name climbs and every symbolic link below the base has a relative target whose '..' all come first and are no more than the link's own "
                  "directory is deep — a condition kept by every step whose new links fit where the kernel puts them — every place any run touches lies at or below "
                  "the base whatever the in-memory overlay answers (c18_hostfs_step/run_confined; static form: no '..' in any target), refuted operationally "
                  "without these hypotheses by six witnesses (F1, F2 and four forms of F6: the overlay accepts Create/Remove where the kernel resolves outside: "
                  "absolute target, unclean target a/../x, detour through d1/d2/up -> ../.., Remove); the gate of the tree-checked methods: a relative link whose "
                  "target joined to the names traversed (the join's shape is read from memfs.go / tarfs) still begins with '..' makes every lookup through it fail "
                  "(what seeded change C18-4 breaks); ExpandApk's temporary directory, stream files and tar, PackageData's temporary file and the names cachePackage "
                  "advertises lie in the cache directory (every creating call of pkg/apk/expandapk and pkg/paths is read from the source with its arguments traced "
                  "to parameters; so are cachePackage's and retrieveAndSaveFile's: every name cachePackage advertises is one proper component below the cache directory, "
                  "retrieveAndSaveFile's directory, temporary file and advertised name lie at or below the etag file's directory); fetchAlpineKeys' decoded key name can climb and is held back on DirFS only by that gate; DirFS's walk over an existing root uses the "
                  "DirEntry's own lstat (read from the source), so the overlay it builds is the lstat image of the root (the mirror function is the identity; with a "
                  "link-following stat a link to a host directory becomes a directory in memory and Create beneath it escapes: refutation); "
                  "everything cachedPackage creates for a cached datahash lies in the cache directory whatever the datahash text is (the os.Stat that precedes the hex check can be aimed outside: refuted as a read-confinement claim). "
                  "The model is tied to the code by goextract (encoding, extensions, shape of each containment test, key path, maxLinks, order of host and overlay calls in every dirFS method, "
                  "cachedPackage's suffixes and the position of its hex check) and by differential comparison with the real functions; "
                  "the canary-tree experiment validates confinement on the real implementation.")
    level_note = ("trusted: Coq kernel, goextract, Go harness/printer, the snapshot differ; modelled not verified: Go text of the path functions, path/filepath, net/url, encoding/hex, the host kernel; "
                  "correspondence and canary runs are testing, not proof")
    design_ref = "DESIGN.md 7 C18"
    modelled_not_verified = ("sanitizePath, sanitizeArchivePath, dirFS.Link's check, etagFromResponse, cacheFileFromEtag, cachePathFromURL, cacheDirForPackage, InitKeyring's key path, the key-name "
                             "check, getNodeCountLinks, cachedPackage's member names / hex check / PackageData's temporary file, and verifyExpanded's datahash test are modelled by hand "
                             "(Model/Confine.v over Base/C18Path.v); the operational dirFS model is C17's (Model/DirFS.v); dirFS on a host with a parent directory — the kernel's "
                             "path resolution, os.MkdirAll, link(2), the overlay's side of every mutating method (memfs.go) — is modelled by hand in Model/ConfineHost.v and compared "
                             "operation by operation with the real dirFS on the canary tree; os.CreateTemp's naming, ExpandApk's files, AdvertiseCachedFile, url.PathUnescape and "
                             "fetchAlpineKeys' key name in Model/ConfineTemp.v; URL.String(), archive/tar, net/http, permissions, the case-insensitive mode's caseMap (exercised: its "
                             "host calls must be a subset of the model's) are not modelled")

PROP = P()
