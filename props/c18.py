import vlib

class P(vlib.Prop):
    id = "C18"
    rule = ("paths stage: hand-picked corners then generated hostile text (.., absolute names, doubled slashes, trailing dots, %-escapes, 300-byte names, "
            "NUL / invalid UTF-8, sibling-prefix roots) run through the REAL filepath.Clean/Join/Base/Dir/Ext/Abs, sanitizePath, sanitizeArchivePath, "
            "etagFromResponse, cacheFileFromEtag, cacheDirFromFile, url.QueryEscape, cachePathFromURL, cacheDirForPackage, InitKeyring (key naming, canned transport), "
            "the key-name check of parseRepositoryIndex, and Lstat on both in-memory trees (tree printed from the real filesystem); every output is compared with the "
            "Coq model and judged by the validators. canary stage: a temp tree root/ cache/ tmp/ out/ + decoys is snapshotted (path, type, permissions, link count, "
            "content hash) before and after (a) operation sequences on DirFS(root), (b) hostile tar streams through installAPKFiles on the directory-backed and the "
            "in-memory backend, (c) InitKeyring with hostile key URLs / ETag headers and a disk cache, (d) key discovery with hostile key ids; every change outside the "
            "four designated directories must be explained by the model as one of the recorded findings. A case is non-trivial unless the input is already clean / empty; "
            "distinct = distinct case terms.")
    stages = (
        dict(name="paths", cmd="c18", args=lambda t, s: ["-stage", "paths"]),
        dict(name="canary", cmd="c18", args=lambda t, s: ["-stage", "canary"]),
    )
    assumptions = (
        "paths are byte strings and '/' is the only separator (Linux); filepath.Abs is modelled with the working directory as an explicit argument",
        "net/url's URL.String() is not modelled: the model of cachePathFromURL takes the printed URL as an argument and c18_cache_path assumes it contains a '/' "
        "(true of every URL with an absolute path); the harness reports the string computed with the same field edits and the model re-derives it for plain URLs",
        "the host kernel resolves a symbolic link found on the way to a path (Model.Confine.resolve); hard links share content with their source",
        "callers hand cachePathFromURL only http(s)/file URLs, whose path is absolute or empty",
    )
    level_text = ("Theorems about an executable model of apko's path handling, for all byte strings: lexical confinement of clean(join(base,p)) characterised at component level; "
                  "the string-prefix tests are refuted as confinement checks (witness /r, ../r2/x) and proved sound when the base ends in a separator or no sibling shares the prefix; "
                  "every ETag header value becomes one path component over the generated base32 alphabet and its cache file stays in its directory; the cache path of every URL "
                  "with an absolute path is at or below the cache root (and equal to it only for paths that clean to '/..'); key files are stored under a single component; "
                  "lookups in the in-memory trees never leave the tree; the directory-backed filesystem is NOT confined (refuted with the two recorded witnesses). "
                  "The model is tied to the code by goextract (encoding, extensions, shape of each prefix test, key path, maxLinks) and by differential comparison with the real functions; "
                  "the canary-tree experiment validates confinement on the real implementation.")
    level_note = ("trusted: Coq kernel, goextract, Go harness/printer, the snapshot differ; modelled not verified: Go text of the path functions, path/filepath, net/url, the host kernel; "
                  "correspondence and canary runs are testing, not proof")
    design_ref = "DESIGN.md 7 C18"
    modelled_not_verified = ("sanitizePath, sanitizeArchivePath, dirFS.Link's check, etagFromResponse, cacheFileFromEtag, cachePathFromURL, cacheDirForPackage, InitKeyring's key path, the key-name "
                             "check and getNodeCountLinks are modelled by hand (Model/Confine.v over Base/C18Path.v); URL.String(), archive/tar, net/http and the kernel's path resolution are "
                             "exercised by the stages only; expandapk/cachedPackage paths built from .PKGINFO datahash are not modelled (see notes/C18.md)")

PROP = P()
