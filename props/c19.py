import vlib

class P(vlib.Prop):
    id = "C19"
    rule = ("one harness run = real apko layer builds (pkg/build, the code path of `apko build`) as separate PROCESSES against a synthetic signed "
            "repository served over HTTP with ETags, two repository revisions (new index etag, a new package version, two packages rebuilt under the "
            "same name-version). Cases: (a) listings of the cache directory after cold/warm/updated/rolled-back builds, k concurrent builders, builds "
            "killed mid-download, forced two-process interleavings — judged by the verified validator (c19_validator_decides); (b) single-package crash "
            "scenarios: a build killed by SIGKILL at every hook point of the index and package population and of the in-place .dat.tar rebuild, then "
            "recovery builds and repository updates; the same scenario is replayed on the Coq model and the advertised names (absent / link to which "
            "content / regular file with which content) and the completion of every process are compared; (c) strace traces of real builds "
            "abstracted to the model's step alphabet, `accepts protocol trace` evaluated in Coq. Every build that runs to the end with the cache is "
            "compared with a build WITHOUT cache (layer digest); every scenario ends with an offline build (same digest as some served revision, or an "
            "error). A case is distinct by its term; all are non-trivial.")
    stages = (
        dict(name="cache", cmd="c19", args=lambda t, s: ["-stage", "all"], timeout=1500),
    )
    assumptions = (
        "temporary names (os.CreateTemp / os.MkdirTemp, O_EXCL) are unique per protocol instance; the only names ever removed are unadvertised temporary files",
        "content is determined by the key: SHA-1/SHA-256 are collision-free on what the origin serves, the signature section is a function of the control section, "
        "an ETag identifies one index content (hypothesis builders_ok / the origin function)",
        "each atomic step of the model (mkdir, create, one write, close, stat, unlink, symlink) is atomic on the host filesystem; a SIGKILL loses no completed system call "
        "(process crashes, not power failures: nothing is fsynced by apko)",
        "advertised names only ever point at regular temporary files (one level of symbolic links)",
        "the cache directory is written by apko builders only; tampering by other parties is explored (tamper stage) but is outside the quantifier of the property",
    )
    level_text = ("c19_invariant holds for every origin, every number of builders running the index / package population protocols with any parameters, "
                  "and every schedule (any interleaving, each builder killed after any number of atomic steps, builders starting at any time) — unbounded, by "
                  "induction over the schedule; c19_transparent: from any sound state a lookup is a miss or exactly the origin's bytes for the requested key; "
                  "c19_offline and the full invariant with the in-place .dat.tar rebuild are REFUTED with machine-checked witnesses (c19_offline_refuted — an error "
                  "on the real code, allowed by the property; c19_tarfile_rebuild_refuted — a silently different image on the real code, finding C19-F1/F1b; c19_lookup_not_atomic_refuted — cachedPackage's lookups are not atomic and a hit can lose the signature section, finding C19-F2). c19_code_order pins the order of the durable calls read from the source by goextract. The model "
                  "is tied to the code by replaying kill scenarios at every hook point on model and implementation and by strace trace conformance.")
    level_note = ("trusted: Coq kernel, Go harness/printer and its path abstraction, strace; modelled not verified: the Go text of retrieveAndSaveFile / "
                  "AdvertiseCachedFile / ExpandApk / cachePackage / cachedPackage / PackageData / fetchOffline, the host filesystem, gzip/tar/RSA, net/http; "
                  "crash, concurrency and tamper experiments are exploration supporting the model, not proof")
    design_ref = "DESIGN.md 7 C19, Appendix A.4"
    modelled_not_verified = ("the population protocols, AdvertiseCachedFile, the readers and the in-place rebuild are modelled by hand (Model/Cache.v) and tied by "
                             "kill-scenario replay at every verifhook point plus strace conformance; singleflight / sync.Once request coalescing inside one process "
                             "is not modelled separately (every goroutine is just another builder); mtime-based choice in fetchOffline is over-approximated by "
                             "an arbitrary choice; tarfs/gzip parsing of a partial file is not modelled (the model says which bytes are returned, not whether they parse)")

PROP = P()
