import vlib

class P(vlib.Prop):
    id = "C19"
    watch = ("pkg/apk/apk/cache.go", "pkg/paths/paths.go", "pkg/apk/apk/implementation.go", "pkg/apk/expandapk/expandapk.go")
    coq_targets = ["Properties/C19.vo", "Corr/C19.vo"]
    rule = ("one harness run = real apko layer builds (pkg/build, the code path of `apko build`) as separate PROCESSES against a synthetic signed "
            "repository served over HTTP with ETags, three repository revisions (new index etag, a new package version, two packages rebuilt under the "
            "same name-version with other data, one rebuilt with only its control section changed). Cases: (a) listings of the cache directory after "
            "cold/warm/updated/rolled-back builds, an update between the HEAD and the GET of one build, k concurrent builders, downloads killed mid-body "
            "(incl. index downloads cut at chosen offsets such as the gzip member boundary), forced two-process interleavings — judged by the verified "
            "validator (c19_validator_decides); (b) single-package crash scenarios: a build killed by SIGKILL at every hook point of the index and package "
            "population and of PackageData's rebuild, recovery builds, repository updates (also between HEAD and GET); the same scenario is replayed on the "
            "Coq model (index download = Head/Stat/Get against a time-dependent origin) and the advertised names (absent / link to which content / regular "
            "file with which content) and the completion of every process are compared; (c) strace traces of real builds abstracted to the model's step "
            "alphabet, `accepts protocol trace` evaluated in Coq. Every build that runs to the end with the cache is compared with a build WITHOUT cache "
            "(layer digest); after every kill (on a copy of the cache) and at the end of every scenario an offline build must give the digest of some "
            "served revision or an error. (d) request coalescing: the REAL flightCache / Cache / cacheTransport (export_c19_verif.go) driven with scripted "
            "outcomes of fn — sequences of calls over several keys (a failure, then successes; random scripts) and n callers arriving while the leader's "
            "execution is held — compared with the model run in the configuration goextract reads from the shape of the source, and judged by the verified "
            "validator (c19_flight_seq_sound); three builds in ONE process sharing one apk.Cache with a transient fault of the origin during the first "
            "(key discovery, a package; index faults are run and counted, never raised), compared with the same process history WITHOUT cache. (e) fetchOffline: real directories with chosen "
            "modification times (ties, leftovers, every order of three revisions' names, two files in one directory) and the directories real builds left "
            "behind (failed download in a surviving process, three publications in every order, keyring URLs) handed to the real fetchOffline; the entry it "
            "opened is compared with pick_newest and judged by validate_offline (c19_offline_validator_decides). (f) one scenario through the repository's "
            "own `apko build` binary (built with the verif tag): cold, warm, update killed at a hook, offline, recovery, roll-back, each against the CLI "
            "build without cache. (g) several index URLs with ONE ETag value behind one shared Cache (the real cacheTransport.get for two URLs held "
            "concurrently; two repositories, cold cache, overlapping downloads, against the build without cache); update histories under other ETag shapes (140 bytes differing "
            "in the tail, weak validators with characters base32 expands); the real etagFromResponse + cacheFileFromEtag on sets of ETags up to 300 bytes (CNames: model name vs "
            "real name, no two ETags share a file name). (h) the advertised names of the real APKINDEX/ ordered by their Lstat modification times (three publications in "
            "every order, a roll-back, an update between HEAD and GET) against the order of the steps that advertise them in the model (CTimes). "
            "A case is distinct by its term; all are non-trivial.")
    stages = (
        dict(name="cache", cmd="c19", args=lambda t, s: ["-stage", "all"], timeout=1500),
    )
    assumptions = (
        "temporary names (os.CreateTemp / os.MkdirTemp, O_EXCL) are unique per protocol instance (the model's identity o; that builders only ever touch their own is "
        "proved: c19_private_temp_names; that the code creates them this way is read from the source: c19_temp_names_code)",
        "content is determined by the key: SHA-1/SHA-256 are collision-free on what the origin serves, the signature section is a function of the control section, "
        "an ETag identifies one index content (hypothesis etag_names_content: whenever the origin answers with etag e the body is origin(e); which revision it answers "
        "with at which step is arbitrary)",
        "each atomic step of the model (mkdir, create, one write, close, stat, unlink, symlink) is atomic on the host filesystem; a SIGKILL loses no completed system call "
        "(process crashes, not power failures: nothing is fsynced by apko)",
        "advertised names only ever point at regular temporary files (one level of symbolic links)",
        "the cache directory is written by apko builders only; tampering by other parties is explored (tamper stage) but is outside the quantifier of the property",
        "coalescing model: the fast-path map lookup, the entry into the singleflight group / sync.Once and the end of fn are atomic events (sync.Map, singleflight and "
        "sync.Once are trusted to be linearizable); transient faults of the origin are not in the property's quantifier: they are the means to make the coalescing objects "
        "observable across builds of one process: what is judged is the state the CACHE's own in-process memos are left in by a build that failed (later builds against a healthy "
        "origin must equal the same process history without cache; was finding C19-F4); behaviour WHILE the origin misbehaves, and memos that are not the cache's (the parsed-index memo), "
        "are not judged (the former C19-F7 was withdrawn as demanding more than the property states)",
        "offline choice: directory entries carry the modification time of their last write (a symbolic link: its creation); two downloads within one clock tick tie and "
        "the listing order decides (modelled: pick_newest takes the first of the newest)",
    )
    level_text = ("c19_invariant holds for every origin whose index revision may change at ANY step, every number of builders (index downloads = HEAD, Stat, GET; "
                  "package populations; readers that rebuild <hash>.dat.tar) with any parameters, and every schedule (any interleaving, each builder killed after any "
                  "number of atomic steps, builders starting at any time) — unbounded, by induction over the schedule, for both orders of cachePackage; "
                  "c19_index_revision_exact: every advertised index name holds exactly the bytes served together with THAT etag (the etag was really answered earlier); "
                  "c19_head_etag_refuted / c19_shared_temp_refuted pin the two design decisions (name by the GET response's etag; private temporary names, "
                  "c19_private_temp_names hypothesis-free) and c19_index_name_code / c19_temp_names_code / c19_code_order tie them and the order of the durable calls "
                  "to the source read by goextract; c19_transparent: from any sound state an atomic lookup is a miss or exactly the origin's bytes; "
                  "c19_entries_stable, c19_cache_package_skips_rebuild; c19_tarfile_rebuild (C19-F1/F1b fixed by 90139a3). REFUTED with machine-checked witnesses, all about OLD shapes of the code (kept "
                  "as the reasons for the repairs): c19_offline_refuted (a choice that may fall on a temporary file: before c5d0145), c19_lookup_not_atomic_refuted (was C19-F2) and "
                  "c19_stale_hit_without_sig_refuted (was C19-F3; control section advertised first: before 6729dee). c19_f2_fix_transparent: with the control section "
                  "advertised last (the code since 6729dee) a lookup that reads the four sections in four different states is exact. "
                  "c19_offline_tmp_complete_is_origin: a temporary index file holds a prefix of a served body, the whole body when complete. "
                  "Coalescing (one model object for singleflight groups, flightCache.Do, the etag cache in front of headFlight, the sync.Once package memo; configuration "
                  "read from the source: c19_flight_code): c19_flight_transparent (every trace: a caller only ever gets a result some execution of fn returned for its key; "
                  "one execution per key at a time), c19_flight_no_error_memo (flight caches never keep a failure; after failures only, a later call executes again and its "
                  "success is returned — also for the configuration read from apkCache.get, the per-process memo of expanded packages: c19_package_memo_forgets_failures, "
                  "was finding C19-F4, fixed by 6e5c862), c19_flight_memo_permanent, c19_flight_seq_sound; c19_error_memoising_once_refuted is about a HYPOTHETICAL shape (a once-cache "
                  "that keeps errors: the old apkCache.get, seeded C19-6). fetchOffline: c19_offline_code (advertised names only, fix c5d0145), c19_offline_picks_newest (every "
                  "directory, every listing order, ties: the first newest entry; order-independent when the maximum is unique), c19_offline_entry_whole (the entry opened is an "
                  "advertised name, no advertised entry is newer, whole whenever the advertised entries are: a partial temporary file is never opened; was finding C19-F5); "
                  "c19_offline_all_entries_refuted is about the HYPOTHETICAL old choice among all entries; STILL REFUTED for the code of this run: "
                  "c19_offline_shared_directory_refuted (finding C19-F6: in a directory shared by the cached copies of several files a request is answered with another "
                  "file's entry — a wrong image offline; repair fixes/C19-F6.patch proved for the model). File names of cached revisions: c19_etag_file_name_injective (for the use "
                  "goextract reads — the whole encoded etag — the name is injective in (directory, etag), any length), c19_etag_name_cut_refuted (HYPOTHETICAL: a cut name, seeded "
                  "C19-8), c19_names_validator_decides; REFUTED for the code of this run: c19_etag_name_length_refuted (finding C19-F8: the name is unbounded in the etag; an ETag "
                  "over 154 bytes cannot be cached and the build with the cache fails). Modification times (Model/CacheTimes.v: the step of the run that last changed a path): "
                  "c19_offline_opens_last_advertised — every origin, builders, schedule, kills: the index entry the source's choice opens is complete, got its time from the "
                  "step that advertised it (absent before, untouched since) and was advertised last.")
    level_note = ("trusted: Coq kernel, Go harness/printer and its path abstraction, strace; modelled not verified: the Go text of fetchAndCache / head / get / retrieveAndSaveFile / "
                  "AdvertiseCachedFile / ExpandApk / cachePackage / cachedPackage / PackageData / fetchOffline / flightCache.Do / apkCache.get, golang.org/x/sync/singleflight and "
                  "sync.Once themselves, the host filesystem, gzip/tar/RSA, net/http; "
                  "crash, concurrency and tamper experiments are exploration supporting the model, not proof")
    design_ref = "DESIGN.md 7 C19, Appendix A.4"
    modelled_not_verified = ("the population protocols, the index download (HEAD, Stat, GET), AdvertiseCachedFile, the readers and PackageData's rebuild are modelled by hand "
                             "(Model/Cache.v) and tied by kill-scenario replay at every verifhook point, strace conformance and goextract (call order, which response's "
                             "etag names the file, how temporary names are created, order of cachePackage); singleflight / flightCache.Do / the etag cache in front of "
                             "headFlight / the sync.Once package memo are ONE hand-written model object (Model/CacheFlight.v: the fast-path Load and the entry into the group are "
                             "separate atomic events) tied by scripted runs of the real objects (export_c19_verif.go) and by the shape goextract reads (c19_flight_code); the "
                             "parsed-index memo of index.go (C04/C08) is not part of it; fetchOffline's choice is modelled on lists of (name, mtime) (pick_newest, "
                             "c19_offline_code) next to, not inside, the disk model of Model/Cache.v, which has no clocks (there the chosen entry stays a parameter); modification times are a function of RUNS "
                             "of that model (Model/CacheTimes.v), tied by the real Lstat order of APKINDEX/ (CTimes); that the file system orders two symlink creations "
                             "like the clock is assumed; gzip/tar/signature parsing of a partial file is not modelled (the model says which "
                             "bytes are returned — a strict prefix of a served body — not whether they parse; the real code fails on every prefix tried)")

PROP = P()
