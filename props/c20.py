import vlib

class P(vlib.Prop):
    id = "C20"
    watch = ("pkg/apk/apk/transport.go",)
    rule = ("scripted stage: hand-picked corners, then every single-fault and a grid of double-fault scripts over a 13-byte body "
            "x 3 server kinds x 3 buffer sizes, then random scripts (body reads with chosen chunk sizes, failures, eager EOF; connection "
            "outcomes serve/dial-error/503) run against the real rangeRetryReader through a scripted http.RoundTripper; "
            "http stage: APK.FetchPackage against a real HTTP server that resets connections after scripted byte counts. "
            "A case is non-trivial when its script contains at least one fault; distinct = distinct case terms.")
    stages = (
        dict(name="scripted", cmd="c20", args=lambda t, s: ["-stage", "scripted"]),
        dict(name="http", cmd="c20", args=lambda t, s: ["-stage", "http"]),
    )
    assumptions = (
        "the server announces its length, so a cut connection surfaces as a non-EOF error (HTTP framing is not modelled)",
        "a server of kind HonoursRange answers 206 from the requested offset and 416 at/after the end; IgnoresRange answers 200 with the full body; RejectsRange answers a non-2xx status",
        "io.CopyN/io.Discard semantics (8192-byte buffer, 'written == n' wins over an error) are modelled by hand and checked by the correspondence",
    )
    level_text = ("Theorems c20_faithful / c20_resume_exact / c20_exhausted_is_error hold for every server content and kind, every script of body-read and "
                  "connection outcomes and every sequence of Read calls (unbounded), about an executable model of rangeRetryReader whose retry schedule is "
                  "regenerated from transport.go on every run; the model is tied to the code by per-Read differential comparison under a scripted transport, and the "
                  "verified validator (c20_validator_decides) is run on what the real reader and the real FetchPackage deliver.")
    level_note = ("trusted: Coq kernel, goextract, Go harness/printer; modelled not verified: Go text of reset/Read, net/http framing (server announces its length), io.CopyN semantics; "
                  "correspondence is differential testing, not proof")
    design_ref = "DESIGN.md 7 C20"
    modelled_not_verified = ("rangeRetryReader.reset/Read are modelled by hand (Model/Transport.v); the retry schedule literal is regenerated "
                             "from transport.go; net/http, the TCP stack and retryablehttp are exercised by the http stage only")

PROP = P()
