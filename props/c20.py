import vlib

class P(vlib.Prop):
    id = "C20"
    watch = ("pkg/apk/apk/transport.go",)
    rule = ("scripted stage: hand-picked corners (cuts at 0 / mid-read / after the last byte, three failures in one Read, resets that fail, "
            "eager EOF, restarts cut while discarding, the 416 corner, close-delimited responses closed early, error responses without a body, "
            "two faults in one Read survived), then every single-fault and a grid of double-fault scripts over a 13-byte body x 3 server kinds x 3 "
            "buffer sizes, then random scripts (body reads with chosen chunk sizes, failures, eager EOF; connection outcomes serve / dial error / 503 / "
            "backend of another kind / close-delimited response closed cleanly after n bytes; one third leaning towards the hypotheses of c20_live) run "
            "against the real rangeRetryReader through a scripted http.RoundTripper, judged as the callers do (status 200 required); "
            "http stage: APK.FetchPackage against a real HTTP server (Content-Length / chunked / close-delimited responses) that resets or cleanly "
            "closes connections after scripted byte counts, incl. after the last byte of a chunked body; "
            "index stage: fetchRepositoryIndex against the same server without a cache directory and with one (etag-keyed cache transport: HEAD, then the body streamed into a file "
            "while the connection is cut at offset 0 / 1 / mid / last byte), every download followed by a fault-free one over the same cache directory, which must deliver the server's bytes. "
            "A case is non-trivial when its script contains at least one fault; distinct = distinct case terms.")
    stages = (
        dict(name="scripted", cmd="c20", args=lambda t, s: ["-stage", "scripted"]),
        dict(name="http", cmd="c20", args=lambda t, s: ["-stage", "http"]),
        dict(name="index", cmd="c20", args=lambda t, s: ["-stage", "index"]),
    )
    assumptions = (
        "c20_faithful: every response is framed (Content-Length or chunked), so that net/http reports an early end of the connection as a non-EOF error; "
        "without framing the statement is refuted (c20_short_body_unframed_refuted, finding C20-F1) and only c20_prefix_any_framing holds",
        "a server of kind HonoursRange answers 206 from the requested offset and 416 at/after the end; IgnoresRange answers 200 with the full body; RejectsRange answers a non-2xx status; "
        "error responses either all carry a body or none does (bare)",
        "io.CopyN/io.Discard semantics (8192-byte buffer, 'written == n' wins over an error) and net/http's http.NoBody for Content-Length: 0 are modelled by hand and checked by the correspondence",
    )
    level_text = ("Safety: c20_faithful (framed responses: after every Read the bytes handed over are a prefix of the server's, EOF only when complete), c20_prefix_any_framing "
                  "(no framing assumed: never duplicated, skipped or altered), c20_resume_exact, c20_exhausted_is_error hold for every server content and kind, every script of "
                  "body-read and connection outcomes and every sequence of Read calls (unbounded). Completion: c20_live - every script accepted by the decidable accounting "
                  "`tolerated` (per Read at most as many failing body reads as the schedule has retries, each followed by a re-connection that succeeds) ends with all bytes "
                  "handed over, EOF and no error; the excluded corners are proved real (c20_live_416_corner_refuted, c20_live_restart_cut_refuted). Refuted: a short body is "
                  "never EOF without framing (c20_short_body_unframed_refuted = finding C20-F1). All about an executable model of rangeRetryReader whose retry schedule is "
                  "regenerated from transport.go on every run; the model is tied to the code by per-Read differential comparison under a scripted transport, and the verified "
                  "validators (c20_validator_decides: Faithful, Complete) are run on what the real reader and the real FetchPackage deliver.")
    level_note = ("trusted: Coq kernel, goextract, Go harness/printer; modelled not verified: Go text of reset/Read, net/http framing (which early ends are errors), http.NoBody, io.CopyN semantics; "
                  "correspondence is differential testing, not proof; `tolerated` is stricter than the reader in one spot (a failing read that arrives with the last byte to discard is swallowed by io.CopyN)")
    design_ref = "DESIGN.md 7 C20"
    modelled_not_verified = ("rangeRetryReader.reset/Read are modelled by hand (Model/Transport.v); the retry schedule literal is regenerated "
                             "from transport.go; net/http, the TCP stack and retryablehttp are exercised by the http stage only")

PROP = P()
