import vlib

class P(vlib.Prop):
    id = "C20"
    watch = ("pkg/apk/apk/transport.go", "pkg/apk/apk/cache.go", "pkg/apk/apk/index.go")
    rule = ("scripted stage: hand-picked corners (cuts at 0 / mid-read / after the last byte, three failures in one Read, resets that fail, "
            "eager EOF, restarts cut while discarding, the 416 corner, close-delimited responses closed early, error responses without a body, "
            "two faults in one Read survived), then every single-fault and a grid of double-fault scripts over a 13-byte body x 3 server kinds x 3 "
            "buffer sizes, then random scripts (body reads with chosen chunk sizes, failures, eager EOF; connection outcomes serve / dial error / 503 / "
            "backend of another kind / close-delimited response closed cleanly after n bytes; one third leaning towards the hypotheses of c20_live) run "
            "against the real rangeRetryReader through a scripted http.RoundTripper that records every value of the Range header of every request together with the bytes handed over so far "
            "and answers error statuses with a body of its own bytes (or none), judged as the callers do (status 200 required); "
            "http stage: APK.FetchPackage against a real HTTP server (Content-Length / chunked / close-delimited responses) that resets or cleanly "
            "closes connections after scripted byte counts, incl. after the last byte of a chunked body; "
            "index stage: fetchRepositoryIndex against the same server without a cache directory and with one (etag-keyed cache transport: HEAD, then the body streamed into a file "
            "while the connection is cut at offset 0 / 1 / mid / last byte / after the last chunk, the GET answered 503, close-delimited responses closed cleanly), every download followed by a fault-free one over the "
            "same cache directory, which must deliver the server's bytes; on the cached path the cache directory is inspected after each download (content under the etag's name, temporary files no advertised "
            "name points to) and results and directory are compared with Model/TransportCache.v. "
            "Retry exhaustion is a class of its own in every stage (wave 3): budget, budget+1 and budget+2 failing body reads in a row, resumptions answered 4xx/5xx or failing at connection level after "
            "0, 1, 2 good resumptions, a back-end that rejects Range - for first responses with Content-Length, without a length but framed (chunked), and close-delimited; through FetchPackage's consumer loop "
            "(http stage), fetchRepositoryIndex over real HTTP without and with the cache (index stage), and (callers stage) the real fetchRepositoryIndex = RoundTrip + status test + io.ReadAll + the decision about "
            "ReadAll's error over the scripted transport, compared with Model/TransportCallers.v for bodies below ReadAll's first buffer size; verdict everywhere: an error or exactly the server's bytes. "
            "A case is non-trivial when its script contains at least one fault; distinct = distinct case terms.")
    stages = (
        dict(name="scripted", cmd="c20", args=lambda t, s: ["-stage", "scripted"]),
        dict(name="http", cmd="c20", args=lambda t, s: ["-stage", "http"]),
        dict(name="index", cmd="c20", args=lambda t, s: ["-stage", "index"]),
        dict(name="callers", cmd="c20", args=lambda t, s: ["-stage", "callers"]),
    )
    assumptions = (
        "c20_faithful: every response is framed (Content-Length or chunked), so that net/http reports an early end of the connection as a non-EOF error; "
        "without framing the statement is refuted (c20_short_body_unframed_refuted, finding C20-F1) and only c20_prefix_any_framing holds",
        "a server of kind HonoursRange answers 206 from the requested offset and 416 at/after the end; IgnoresRange answers 200 with the full body; RejectsRange answers a non-2xx status; "
        "error responses either all carry a body or none does (bare)",
        "io.CopyN/io.Discard semantics (8192-byte buffer, 'written == n' wins over an error) and net/http's http.NoBody for Content-Length: 0 are modelled by hand and checked by the correspondence",
        "c20_range_header_is_progress / c20_refines: the server side looks at the FIRST value of the Range header (Header.Get; net/http's ServeContent and the harness's servers do); the request handed to RoundTrip carries no Range header of its own",
        "c20_cached_download_*: the GET response carries an ETag (the harness's server sends one), reads of the local cache file do not fail, one process at a time (concurrency and crashes on this path are C19's)",
    )
    level_text = ("Safety: c20_faithful (framed responses: after every Read the bytes handed over are a prefix of the server's, EOF only when complete), c20_prefix_any_framing "
                  "(no framing assumed: never duplicated, skipped or altered), c20_resume_exact, c20_exhausted_is_error hold for every server content and kind, every script of "
                  "body-read and connection outcomes and every sequence of Read calls (unbounded). Completion: c20_live - every script accepted by the decidable accounting "
                  "`tolerated` ends with all bytes handed over, EOF and no error; c20_live_budget says it on the script alone for the budget goextract reads from Read's schedule literal "
                  "(Range-honouring server, at most retry_budget failing body reads in a row, none once all bytes can have been handed over); the excluded corners are proved real "
                  "(c20_live_416_corner_refuted, c20_live_restart_cut_refuted, c20_live_budget_exceeded_refuted). Request side and error bodies: Model/TransportReq.v keeps the Range header "
                  "as state of the Header map the request copies share, carries the bytes of error responses, explicit status codes and the callers' test of them; it is PROVED to refine the "
                  "abstract model for every shape of the text that is shape_okb (c20_refines), so c20_code_faithful / c20_code_live hold of it; c20_range_header_is_progress (every request carries "
                  "exactly bytes=<progress>-, one value, none at 0) and c20_error_body_never_delivered (r.body never is the body of a non-200/206 response when a Read returns); both are facts about "
                  "the text - Set vs Add on the shared map, the order of `r.body = resp.Body` and the status test, the Close after a failed reset - which goextract reads on every run "
                  "(Generated/TransportShape.v, c20_text_as_modelled) and whose wrong variants are refuted in the model (c20_range_header_appended_refuted, c20_error_body_early_install_refuted). "
                  "Callers: fetchRepositoryIndex is modelled as RoundTrip + status test + io.ReadAll (buffer sizes 512 - bytes read, bodies below 512 bytes) + the condition under which the read error is returned, "
                  "which goextract reads (c20_callers_as_modelled); c20_index_fetch_complete_or_error: for every script, exhausted retries included, it terminates with an error or a prefix of the server's bytes, all of them "
                  "when every response is framed; c20_index_read_error_dropped_refuted is the variant of seeded change C20-9. "
                  "While the cached download runs: retrieve_trace gives the cache directory after the temporary file was created, after every body read of the copy and at the end; goextract reads where the copy goes "
                  "(c20_cache_text_as_modelled); c20_cached_never_partially_advertised: in every such state the final name holds nothing or exactly the server's bytes (c20_cached_direct_write_refuted for a copy "
                  "straight into the final name); the index stage looks into the real directory at the moment of the cut. "
                  "Cached index download: c20_cached_download_complete_or_error / _twice (for every cut of a framed response: an error, nothing advertised, no temporary file left - or exactly the "
                  "server's bytes advertised and returned), c20_readall_complete_or_error. Refuted: a short body is never EOF without framing (c20_short_body_unframed_refuted = finding C20-F1; "
                  "c20_cached_short_body_unframed_refuted = finding C20-F2, where the short body stays in the cache). All about executable models tied to the code by per-Read differential "
                  "comparison under a scripted transport (Read results, every Range value of every request), by comparison of the real cache directory after real downloads, and by the verified "
                  "validators (c20_validator_decides) run on what the real reader, FetchPackage and fetchRepositoryIndex deliver.")
    level_note = ("trusted: Coq kernel, goextract, Go harness/printer; modelled not verified: Go text of reset/Read/retrieveAndSaveFile beyond the ten shape facts goextract reads, net/http framing (which early ends are errors), "
                  "http.NoBody, io.CopyN / io.Copy / io.ReadAll semantics; correspondence is differential testing, not proof; `tolerated` is stricter than the reader in one spot (a failing read that arrives with the last "
                  "byte to discard is swallowed by io.CopyN); c20_live_budget's early_faults bounds the bytes handed over from above (sum of max 1 rk), so it is stricter than `tolerated`")
    design_ref = "DESIGN.md 7 C20"
    modelled_not_verified = ("rangeRetryReader.reset/Read, the callers' status test and retrieveAndSaveFile's copy-then-advertise are modelled by hand (Model/Transport.v, TransportReq.v, TransportCache.v); "
                             "the retry schedule literal and ten yes/no facts about the text (Set/Add, shallow copy, order of body installation and status test, Close and return after a failed reset, "
                             "callers' 200 test, copy error / temp removal / copy before advertise) are regenerated from the source on every run; rangeRetryReader.Close, r.total (assigned, never read), "
                             "contexts, auth, the HEAD request and etag handling, singleflight, and the package-cache branch of cacheTransport.RoundTrip have no counterpart; "
                             "net/http, the TCP stack and retryablehttp are exercised by the http and index stages only")

PROP = P()
