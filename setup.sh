#!/bin/bash
# Build the framework offline from files on disk: translator, harness binaries, full .vo build.
set -e
cd "$(dirname "$0")"
export GOFLAGS=-mod=mod GOPROXY=off GOSUMDB=off GOTOOLCHAIN=local
python3 - <<'PY'
import sys, os, glob
sys.path.insert(0, "lib")
import vlib
err = vlib.run_goextract()
if err:
    print(err); sys.exit(1)
ok, log = vlib.coq_make([], timeout=7200)
if not ok:
    # every check rebuilds its own dependency cone and reports what no longer
    # checks; setup only warms the build, so a failure here is reported, not fatal
    print("WARNING: full coq build incomplete:\n" + log[-4000:])
bad = 0
for d in sorted(glob.glob(os.path.join(vlib.HARNESS, "cmd", "*"))):
    name = os.path.basename(d)
    if name == "goextract":
        continue
    exe, e = vlib.build_go(name)
    if e:
        bad += 1
        print("WARNING: harness %s failed to build:\n%s" % (name, e[-2000:]))
print("setup done (coq %s, %d harness build failures)" % ("ok" if ok else "incomplete", bad))
PY
