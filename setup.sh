#!/bin/bash
# Build the framework offline from files on disk: translator, harness binaries, full .vo build.
set -e
cd "$(dirname "$0")"
export GOFLAGS=-mod=mod GOPROXY=off GOSUMDB=off GOTOOLCHAIN=local
python3 - <<'PY'
import sys, os, glob
sys.path.insert(0, "lib")
import vlib
err = vlib.run_goextract()
if err:
    print(err); sys.exit(1)
ok, log = vlib.coq_make([], timeout=7200)
if not ok:
    print(log[-8000:]); sys.exit(1)
for d in sorted(glob.glob(os.path.join(vlib.HARNESS, "cmd", "*"))):
    name = os.path.basename(d)
    if name == "goextract":
        continue
    exe, e = vlib.build_go(name)
    if e:
        print("harness %s failed to build:\n%s" % (name, e)); sys.exit(1)
print("setup ok")
PY
